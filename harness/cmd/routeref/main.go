// Engine routeref: property C12 — generated routes send each request where the VirtualService says.
//
// Differential semantic check: the real istio route generator (pilot/pkg/networking/core) is run on
// generated worlds; the emitted RouteConfiguration protos are interpreted by an Envoy route
// interpreter (envoyref.go) and compared, request by request, with a VirtualService evaluator
// written from the API reference (vsref.go).
package main

import (
	"encoding/json"
	"fmt"
	"math/rand"
	"os"
	"sort"
	"strings"

	listener "github.com/envoyproxy/go-control-plane/envoy/config/listener/v3"
	route "github.com/envoyproxy/go-control-plane/envoy/config/route/v3"
	hcm "github.com/envoyproxy/go-control-plane/envoy/extensions/filters/network/http_connection_manager/v3"
	"google.golang.org/protobuf/proto"

	"istio.io/istio/pilot/pkg/model"
	"istio.io/istio/pilot/pkg/networking/core"
	"istio.io/istio/pkg/config"
	"istio.io/istio/pkg/config/validation"
	istiolog "istio.io/istio/pkg/log"
	"istio.io/istio/pkg/util/protomarshal"

	"verifharness/internal/vh"
)

const (
	quickWorlds     = 1000
	thoroughWorlds  = 15000
	reqsPerWorld    = 50
	quickMultiGW    = 150
	thoroughMultiGW = 3000
	quickPiles      = 200
	thoroughPiles   = 4000
	reqsPerPile     = 120
)

func main() {
	vh.Main(vh.Prop{
		ID:    "C12",
		Level: "exploration",
		Rule: "case = one PRNG world (3-6 ServiceEntries with HTTP ports in 3 namespaces, DestinationRule subsets, 1-3 Gateways, 2-5 VirtualServices " +
			"from the stated grammar, each passed through the real ValidateVirtualService; rejected ones are dropped and counted). The real generator " +
			"(NewConfigGenTest + BuildListeners + BuildHTTPRoutes) produces RDS for two sidecars and one gateway proxy; ~50 requests per world are " +
			"built from the literals of every match block plus near misses and evaluated by (A) a VirtualService evaluator written from the API " +
			"reference and (B) an Envoy route interpreter over the emitted protos, on the route configuration the listener of that port references. " +
			"Plus a 'multigw' stratum (one VirtualService bound to two Gateways of the same workload and port under different hosts, rules scoped by match-level gateways) and a 'pile' stratum: 2-3 VirtualServices with the same host merged on one gateway (or one big mesh VirtualService), 5-17 rules with nested path matches and mid-list catch-alls, ~120 requests each, so that only rule order decides. " +
			"A case is non-trivial when at least one asserted request was decided by a VirtualService rule (not a default route); distinct = hash of the VirtualService set.",
		Assumptions: []string{
			"trusted base: the engine's two reference interpreters (vsref.go from istio.io/api networking/v1alpha3 comments and the operations guide; envoyref.go from the Envoy v3 route API docs), Go regexp as RE2",
			"the test environment of core.NewConfigGenTest (in-memory config store, ServiceEntry registry, default MeshConfig) stands for istiod's push context",
			"situations the documentation leaves open are not asserted and are counted under unspecified:* (see vsref.go)",
		},
		Anchors: []string{
			"pilot/pkg/networking/core/route/route.go", "pilot/pkg/networking/core/httproute.go", "pilot/pkg/networking/core/gateway.go",
			"pilot/pkg/model/virtualservice.go", "pilot/pkg/networking/util/util.go",
		},
		MinNontrivial: func(tier string) int {
			if tier == "thorough" {
				return 6000
			}
			return 400
		},
		Batches: func(tier string) int {
			if tier == "thorough" {
				return 8
			}
			return 6
		},
		Parallel: func(tier string) int {
			if tier == "thorough" {
				return 8
			}
			return 6
		},
		TimeoutSec: func(tier string) int {
			if tier == "thorough" {
				return 2400
			}
			return 600
		},
		Run: run,
	})
}

func run(c *vh.Ctx) {
	o := istiolog.DefaultOptions()
	o.SetDefaultOutputLevel(istiolog.OverrideScopeName, istiolog.NoneLevel)
	_ = istiolog.Configure(o)
	debug := os.Getenv("ROUTEREF_DEBUG") != ""
	minAll := os.Getenv("ROUTEREF_MINIMISE") == "all" // development aid: minimise every violation
	onlyKey := os.Getenv("ROUTEREF_ONLYKEY")
	minimised := map[string]int{}
	for i := 0; i < c.N(quickWorlds, thoroughWorlds); i++ {
		if !c.Mine(i) {
			continue
		}
		c.Case(fmt.Sprintf("world-%d", i), func() {
			r := c.Rng("world", i)
			w := genWorld(r)
			for _, cfg := range w.baseConfigs() {
				var err error
				switch cfg.GroupVersionKind.Kind {
				case "ServiceEntry":
					_, err = validation.ValidateServiceEntry(cfg)
				case "DestinationRule":
					_, err = validation.ValidateDestinationRule(cfg)
				case "Gateway":
					_, err = validation.ValidateGateway(cfg)
				}
				if err != nil {
					vh.Abort("generator produced an invalid %s: %v", cfg.GroupVersionKind.Kind, err)
				}
			}
			nvs := 2 + r.Intn(4)
			for k := 0; k < nvs; k++ {
				ns, spec := genVirtualService(r, w)
				// names repeat across namespaces (as "reviews" does in real meshes); unique per namespace
				name := fmt.Sprintf("vs-%d", r.Intn(3))
				for _, o := range w.VS {
					if o.NS == ns && o.Name == name {
						name = fmt.Sprintf("vs-%d-%d", r.Intn(3), k)
					}
				}
				v := &vsDef{Name: name, NS: ns, Seq: k, Spec: spec}
				w.Generated++
				if _, err := validation.ValidateVirtualService(vsConfig(v)); err != nil {
					w.Rejected++
					c.SetAdd("rejection_reasons", firstReason(err))
					continue
				}
				w.VS = append(w.VS, v)
			}
			c.Count("vs_sets", 1)
			c.Count("vs_generated", w.Generated)
			c.Count("vs_rejected_by_validation", w.Rejected)
			c.Count("vs_accepted", len(w.VS))
			c.Max("vs_per_set", len(w.VS))

			res := checkWorld(c, w, c.Rng("requests", i), reqsPerWorld, debug)
			if res.decidedByRule > 0 {
				c.Nontrivial(vh.Hash(worldJSON(w)))
			}
			c.Sample(map[string]any{"world": worldJSON(w), "requests_asserted": res.asserted, "decided_by_vs_rule": res.decidedByRule})
			for _, v := range res.viols {
				payload := v.payload
				if onlyKey != "" && !strings.Contains(v.key, onlyKey) {
					continue
				}
				if minAll || (minimised[v.key] < 1 && len(minimised) < 6) {
					minimised[v.key]++
					if mw, mreq := minimise(w, v); mw != nil {
						payload["minimised_world"] = worldJSON(mw)
						payload["minimised_request"] = mreq
					}
				}
				c.Violation(v.key, v.msg, payload)
			}
		})
	}
	// multigw stratum: one VirtualService bound to two Gateways of the same workload and port (world.go genMultiGW)
	for i := 0; i < c.N(quickMultiGW, thoroughMultiGW); i++ {
		if !c.Mine(i) {
			continue
		}
		c.Case(fmt.Sprintf("multigw-%d", i), func() {
			r := c.Rng("multigw", i)
			w := genWorld(r)
			for _, v := range genMultiGW(r, w) {
				w.Generated++
				if _, err := validation.ValidateVirtualService(vsConfig(v)); err != nil {
					w.Rejected++
					c.SetAdd("rejection_reasons", firstReason(err))
					continue
				}
				w.VS = append(w.VS, v)
			}
			for _, cfg := range w.baseConfigs() {
				if cfg.GroupVersionKind.Kind == "Gateway" {
					if _, err := validation.ValidateGateway(cfg); err != nil {
						vh.Abort("generator produced an invalid Gateway: %v", err)
					}
				}
			}
			c.Count("multigw_sets", 1)
			c.Count("vs_generated", w.Generated)
			c.Count("vs_rejected_by_validation", w.Rejected)
			c.Count("vs_accepted", len(w.VS))
			res := checkWorld(c, w, c.Rng("multigw-requests", i), reqsPerPile, debug)
			if res.decidedByRule > 0 {
				c.Nontrivial(vh.Hash(worldJSON(w)))
			}
			for _, v := range res.viols {
				payload := v.payload
				if onlyKey != "" && !strings.Contains(v.key, onlyKey) {
					continue
				}
				if minAll || (minimised[v.key] < 1 && len(minimised) < 6) {
					minimised[v.key]++
					if mw, mreq := minimise(w, v); mw != nil {
						payload["minimised_world"] = worldJSON(mw)
						payload["minimised_request"] = mreq
					}
				}
				c.Violation(v.key, v.msg, payload)
			}
		})
	}
	// pile stratum: large (merged) virtual hosts where only the order of rules decides (world.go genPile)
	for i := 0; i < c.N(quickPiles, thoroughPiles); i++ {
		if !c.Mine(i) {
			continue
		}
		c.Case(fmt.Sprintf("pile-%d", i), func() {
			r := c.Rng("pile", i)
			w := genWorld(r)
			for _, v := range genPile(r, w) {
				w.Generated++
				if _, err := validation.ValidateVirtualService(vsConfig(v)); err != nil {
					w.Rejected++
					c.SetAdd("rejection_reasons", firstReason(err))
					continue
				}
				w.VS = append(w.VS, v)
			}
			nrules := 0
			for _, v := range w.VS {
				nrules += len(v.Spec.Http)
			}
			c.Count("pile_sets", 1)
			c.Count("vs_generated", w.Generated)
			c.Count("vs_rejected_by_validation", w.Rejected)
			c.Count("vs_accepted", len(w.VS))
			c.Max("pile_rules_per_virtual_host", nrules)
			if nrules > 12 {
				c.Count("pile_sets_with_more_than_12_rules", 1)
			}
			res := checkWorld(c, w, c.Rng("pile-requests", i), reqsPerPile, debug)
			if res.decidedByRule > 0 {
				c.Nontrivial(vh.Hash(worldJSON(w)))
			}
			for _, v := range res.viols {
				payload := v.payload
				if onlyKey != "" && !strings.Contains(v.key, onlyKey) {
					continue
				}
				if minAll || (minimised[v.key] < 1 && len(minimised) < 6) {
					minimised[v.key]++
					if mw, mreq := minimise(w, v); mw != nil {
						payload["minimised_world"] = worldJSON(mw)
						payload["minimised_request"] = mreq
					}
				}
				c.Violation(v.key, v.msg, payload)
			}
		})
	}
}

func firstReason(err error) string {
	s := err.Error()
	if i := strings.Index(s, "\n"); i >= 0 {
		s = s[i+1:]
		if j := strings.Index(s, "\n"); j >= 0 {
			s = s[:j]
		}
	}
	s = strings.TrimSpace(strings.TrimPrefix(strings.TrimSpace(s), "*"))
	// strip volatile literals
	for _, sep := range []string{":", "&"} {
		if i := strings.Index(s, sep); i > 20 {
			s = s[:i]
		}
	}
	if len(s) > 90 {
		s = s[:90]
	}
	return s
}

// ---------------------------------------------------------------------------------------
// running the real generator

type realOut struct {
	ports  map[int][]int                             // proxy index -> ports with an RDS-backed HTTP listener
	routes map[int]map[int]*route.RouteConfiguration // proxy index -> port -> route configuration the listener references
	names  map[int]map[int]string                    // rds names
}

func rdsNames(l *listener.Listener) []string {
	var out []string
	chains := append([]*listener.FilterChain{}, l.GetFilterChains()...)
	if l.GetDefaultFilterChain() != nil {
		chains = append(chains, l.GetDefaultFilterChain())
	}
	for _, fc := range chains {
		for _, f := range fc.GetFilters() {
			if f.GetTypedConfig() == nil || !strings.HasSuffix(f.GetTypedConfig().GetTypeUrl(), "HttpConnectionManager") {
				continue
			}
			h := &hcm.HttpConnectionManager{}
			if err := f.GetTypedConfig().UnmarshalTo(h); err != nil {
				continue
			}
			if rds := h.GetRds(); rds != nil {
				dup := false
				for _, o := range out {
					if o == rds.GetRouteConfigName() {
						dup = true
					}
				}
				if !dup {
					out = append(out, rds.GetRouteConfigName())
				}
			}
		}
	}
	return out
}

func buildReal(w *world) *realOut {
	f := vh.NewF()
	defer f.Done()
	cg := core.NewConfigGenTest(f, core.TestOptions{Configs: w.allConfigs()})
	out := &realOut{ports: map[int][]int{}, routes: map[int]map[int]*route.RouteConfiguration{}, names: map[int]map[int]string{}}
	for pi, p := range w.Proxies {
		labels := map[string]string{}
		for k, v := range p.Labels {
			labels[k] = v
		}
		mp := &model.Proxy{
			ID:              fmt.Sprintf("proxy-%d.%s", pi, p.NS),
			ConfigNamespace: p.NS,
			Labels:          labels,
			Metadata:        &model.NodeMetadata{Namespace: p.NS, Labels: labels},
			IPAddresses:     []string{fmt.Sprintf("10.9.%d.1", pi+1)},
		}
		if p.Kind == "gateway" {
			mp.Type = model.Router
		}
		proxy := cg.SetupProxy(mp)
		ls := cg.Listeners(proxy)
		byPort := map[int]string{}
		for _, l := range ls {
			names := rdsNames(l)
			if len(names) == 0 {
				continue
			}
			port := int(l.GetAddress().GetSocketAddress().GetPortValue())
			if len(names) > 1 {
				vh.Abort("listener %s references several route configurations %v", l.GetName(), names)
			}
			if prev, ok := byPort[port]; ok && prev != names[0] {
				vh.Abort("two listeners on port %d with different route configurations (%s, %s)", port, prev, names[0])
			}
			byPort[port] = names[0]
		}
		var want []string
		for _, port := range sortedInts(byPort) {
			want = append(want, byPort[port])
		}
		rcs := map[string]*route.RouteConfiguration{}
		if len(want) > 0 {
			resources, _ := cg.ConfigGen.BuildHTTPRoutes(proxy, &model.PushRequest{Push: cg.PushContext()}, want)
			for _, res := range resources {
				rc := &route.RouteConfiguration{}
				if err := res.Resource.UnmarshalTo(rc); err != nil {
					vh.Abort("route configuration %s does not unmarshal: %v", res.Name, err)
				}
				rcs[rc.GetName()] = rc
			}
		}
		out.routes[pi] = map[int]*route.RouteConfiguration{}
		out.names[pi] = map[int]string{}
		for _, port := range sortedInts(byPort) {
			rc := rcs[byPort[port]]
			if rc == nil {
				vh.Abort("no RDS resource %q returned for listener port %d of %s", byPort[port], port, p.String())
			}
			out.ports[pi] = append(out.ports[pi], port)
			out.routes[pi][port] = rc
			out.names[pi][port] = byPort[port]
		}
	}
	return out
}

func sortedInts[V any](m map[int]V) []int {
	out := make([]int, 0, len(m))
	for k := range m {
		out = append(out, k)
	}
	sort.Ints(out)
	return out
}

// ---------------------------------------------------------------------------------------
// oracle

type violation struct {
	key     string
	msg     string
	payload map[string]any
	pi      int
	req     *request
}

type worldResult struct {
	asserted      int
	decidedByRule int
	viols         []violation
}

func parseCluster(c string) (port, subset, host string, ok bool) {
	p := strings.Split(c, "|")
	if len(p) != 4 || p[0] != "outbound" {
		return "", "", "", false
	}
	return p[1], p[2], p[3], true
}

func routeDiff(want, got outcome) string {
	strip := func(o outcome, f func(port, subset, host string) string) string {
		var ks []string
		for c, w := range o.Clusters {
			if w == 0 {
				continue
			}
			p, s, h, ok := parseCluster(c)
			if !ok {
				ks = append(ks, c)
				continue
			}
			ks = append(ks, f(p, s, h))
		}
		sort.Strings(ks)
		return strings.Join(ks, ",")
	}
	full := func(p, s, h string) string { return p + "|" + s + "|" + h }
	if strip(want, full) == strip(got, full) {
		return "weights"
	}
	if strip(want, func(p, s, h string) string { return s + "|" + h }) == strip(got, func(p, s, h string) string { return s + "|" + h }) {
		return "cluster-port"
	}
	if strip(want, func(p, s, h string) string { return p + "|" + h }) == strip(got, func(p, s, h string) string { return p + "|" + h }) {
		return "cluster-subset"
	}
	if strip(want, func(p, s, h string) string { return p + "|" + s }) == strip(got, func(p, s, h string) string { return p + "|" + s }) {
		return "cluster-host"
	}
	return "cluster-set"
}

var deviations = []struct {
	name string
	q    quirks
}{
	{"implicit-destination-port-is-listener-port", quirks{implicitPortIsListenerPort: true}},
	{"withoutHeaders-absent-header-matched-as-empty", quirks{withoutHeaderMissingAsEmpty: true}},
	{"implicit-destination-port-is-listener-port+withoutHeaders-absent-header-matched-as-empty", quirks{implicitPortIsListenerPort: true, withoutHeaderMissingAsEmpty: true}},
}

// violationKey names a disagreement. If the observed outcome is exactly what the reference yields under
// one named deviation hypothesis the key is that hypothesis (root cause); otherwise a structural key.
func violationKey(rw *refWorld, p *proxyDef, req *request, ref refResult, got outcome) string {
	defer func() { rw.q = quirks{} }()
	for _, d := range deviations {
		rw.q = d.q
		alt := rw.eval(p, req)
		if alt.Unspecified != "" {
			continue
		}
		for _, o := range alt.Admissible {
			if o.canon() == got.canon() {
				return "deviation=" + d.name
			}
		}
	}
	rw.q = quirks{}
	return mismatchKey(p, ref, got)
}

func mismatchKey(p *proxyDef, ref refResult, got outcome) string {
	kinds := map[string]bool{}
	for _, o := range ref.Admissible {
		kinds[o.Kind] = true
	}
	ks := sortedKeys(kinds)
	want := strings.Join(ks, "+")
	if ref.Default {
		want = "default-" + want
	}
	key := fmt.Sprintf("proxy=%s want=%s got=%s", p.Kind, want, got.Kind)
	if len(ref.Admissible) == 1 && ref.Admissible[0].Kind == got.Kind {
		switch got.Kind {
		case "route":
			key += " diff=" + routeDiff(ref.Admissible[0], got)
		case "redirect":
			a, b := ref.Admissible[0], got
			switch {
			case a.RPort != b.RPort:
				key += " diff=port"
			case a.RCode != b.RCode:
				key += " diff=code"
			case a.RHost != b.RHost:
				key += " diff=host"
			case a.RScheme != b.RScheme:
				key += " diff=scheme"
			default:
				key += " diff=path"
			}
		case "direct":
			if ref.Admissible[0].Status != got.Status {
				key += " diff=status"
			} else {
				key += " diff=body"
			}
		}
	}
	return key
}

func protoJSON(m proto.Message) any {
	if m == nil {
		return nil
	}
	b, err := protomarshal.Marshal(m)
	if err != nil {
		return fmt.Sprint(m)
	}
	return json.RawMessage(b)
}

func worldJSON(w *world) map[string]any {
	var vss []any
	for _, v := range w.VS {
		vss = append(vss, map[string]any{"name": v.Name, "namespace": v.NS, "seq": v.Seq, "spec": protoJSON(v.Spec)})
	}
	return map[string]any{"services": w.Services, "gateways": w.Gateways, "virtualservices": vss, "proxies": w.Proxies}
}

type groupObs struct {
	cands   []string
	perCand [][]string
	got     []string
	reqs    []*request
	pi      int
}

func checkWorld(c *vh.Ctx, w *world, r *rand.Rand, nreq int, debug bool) worldResult {
	var res worldResult
	real := buildReal(w)
	rw := newRefWorld(w)
	interp := newEnvoyInterp()
	rg := &reqGen{r: r, w: w, rw: rw, ports: real.ports}
	reqs := rg.generate(nreq)
	groups := map[string]*groupObs{}
	var groupOrder []string
	if debug {
		b, _ := json.Marshal(worldJSON(w))
		fmt.Fprintf(os.Stderr, "WORLD %s\n", b)
		for pi := range w.Proxies {
			for _, port := range real.ports[pi] {
				fmt.Fprintf(os.Stderr, "RDS proxy=%s port=%d %s\n", w.Proxies[pi], port, mustJSON(protoJSON(real.routes[pi][port])))
			}
		}
	}
	for _, gr := range reqs {
		p := w.Proxies[gr.pi]
		rc := real.routes[gr.pi][gr.req.Port]
		if rc == nil {
			if c != nil {
				c.Count("requests_without_listener", 1)
			}
			continue
		}
		ref := rw.eval(p, gr.req)
		got, tr, err := interp.interpret(rc, gr.req)
		if err != nil {
			vh.Abort("route interpreter: %v (proxy %s, rds %s, vhost %s)", err, p, rc.GetName(), tr.VHost)
		}
		if debug {
			fmt.Fprintf(os.Stderr, "REQ proxy=%s %s -> A=%v unspecified=%q B=%s vhost=%s route=%d\n", p, mustJSON(gr.req), canons(ref.Admissible), ref.Unspecified, got.canon(), tr.VHost, tr.RouteIndex)
		}
		if c != nil {
			c.Count("requests_evaluated", 1)
			c.Count("routes_interpreted", tr.Examined)
			c.Count("requests_"+gr.why, 1)
		}
		if ref.Unspecified != "" {
			if c != nil {
				c.Count("requests_unspecified", 1)
				c.SetAdd("unspecified_reasons", ref.Unspecified)
			}
			continue
		}
		res.asserted++
		if c != nil {
			c.Count("requests_asserted", 1)
			c.Count("requests_asserted_"+p.Kind, 1)
			if ref.Weak != "" {
				c.Count("requests_asserted_weakly", 1)
			}
			c.Count("observed_action_"+got.Kind, 1)
			if got.Kind == "route" && len(got.Clusters) > 1 {
				c.Count("observed_action_route_weighted", 1)
			}
			if ref.Default {
				c.Count("expected_default_route", 1)
			}
		}
		ok := false
		for _, o := range ref.Admissible {
			if o.canon() == got.canon() {
				ok = true
			}
		}
		decidedByRule := !ref.Default && ref.VS != "" && ref.Rule >= 0
		if decidedByRule {
			res.decidedByRule++
			if c != nil {
				c.Count("decided_by_vs_rule", 1)
				c.Count("decided_by_vs_rule_"+p.Kind, 1)
				if ref.Merged > 1 {
					c.Count("gateway_decided_among_merged_virtualservices", 1)
					c.Max("gateway_merged_virtualservices", ref.Merged)
				}
				c.Max("deciding_rule_index", ref.Rule)
				if ref.Rule > 0 {
					c.Count("decided_by_later_rule", 1)
				}
				if ref.Block > 0 {
					c.Count("decided_by_later_block", 1)
				}
				for _, ft := range ref.MatchedBy {
					c.SetAdd("combos", ft+"|"+ref.Admissible[0].Kind+"|"+p.Kind)
				}
			}
		} else if c != nil && ref.VS != "" {
			c.Count("vs_applies_but_no_rule_matches", 1)
		}
		if !ok {
			key := violationKey(rw, p, gr.req, ref, got)
			var vhJSON any
			if vh0, _ := selectVHost(rc, gr.req.Authority); vh0 != nil {
				vhJSON = protoJSON(vh0)
			}
			res.viols = append(res.viols, violation{
				key: key,
				msg: fmt.Sprintf("proxy %s request %s: VirtualService semantics give %v (vs=%s rule=%d block=%d default=%v cands=%v) but the generated route configuration %q gives %s (vhost %q domain %q route #%d %q)",
					p, mustJSON(gr.req), canons(ref.Admissible), ref.VS, ref.Rule, ref.Block, ref.Default, ref.Cands, rc.GetName(), got.canon(), tr.VHost, tr.Domain, tr.RouteIndex, tr.RouteName),
				payload: map[string]any{"world": worldJSON(w), "proxy": p, "request": gr.req, "expected": canons(ref.Admissible), "observed": got.canon(),
					"trace": tr, "rds": rc.GetName(), "selected_vhost": vhJSON, "weak": ref.Weak},
				pi: gr.pi, req: gr.req,
			})
			continue
		}
		if ref.GroupKey != "" {
			g := groups[ref.GroupKey]
			if g == nil {
				g = &groupObs{cands: ref.Cands, pi: gr.pi}
				groups[ref.GroupKey] = g
				groupOrder = append(groupOrder, ref.GroupKey)
			}
			if strings.Join(g.cands, ",") == strings.Join(ref.Cands, ",") {
				g.perCand = append(g.perCand, ref.PerCand)
				g.got = append(g.got, got.canon())
				g.reqs = append(g.reqs, gr.req)
			}
		}
	}
	if c != nil {
		for _, k := range sortedKeys(interp.kinds) {
			c.SetAdd("envoy_constructs_interpreted", k)
		}
	}
	// sidecar ties: VirtualServices for the same host are not merged on sidecars, so all requests to
	// that host must be explained by one and the same candidate.
	for _, gk := range groupOrder {
		g := groups[gk]
		if c != nil {
			c.Count("sidecar_tie_groups", 1)
		}
		explained := explainedBy(g.perCand, g.got, len(g.cands))
		if explained >= 0 {
			if c != nil {
				if explained == 0 {
					c.Count("sidecar_tie_oldest_wins", 1)
				} else {
					c.Count("sidecar_tie_other_wins", 1)
				}
			}
			continue
		}
		// name the root cause if a deviation hypothesis explains the group
		key := "proxy=sidecar merged-virtualservices-for-same-host"
		for _, d := range deviations {
			rw.q = d.q
			var pcs [][]string
			okAll := true
			for _, rq := range g.reqs {
				alt := rw.eval(w.Proxies[g.pi], rq)
				if alt.Unspecified != "" || len(alt.PerCand) != len(g.cands) {
					okAll = false
					break
				}
				pcs = append(pcs, alt.PerCand)
			}
			rw.q = quirks{}
			if okAll && explainedBy(pcs, g.got, len(g.cands)) >= 0 {
				key = "deviation=" + d.name
				break
			}
		}
		res.viols = append(res.viols, violation{
			key: key,
			msg: fmt.Sprintf("proxy %s: requests to %s are not explained by any single one of the VirtualServices %v (sidecars do not merge VirtualServices of one host): per-candidate %v observed %v",
				w.Proxies[g.pi], gk, g.cands, g.perCand, g.got),
			payload: map[string]any{"world": worldJSON(w), "proxy": w.Proxies[g.pi], "requests": g.reqs, "per_candidate": g.perCand, "observed": g.got, "candidates": g.cands},
			pi:      g.pi, req: nil,
		})
	}
	return res
}

// explainedBy returns the index of a candidate whose outcomes equal the observed ones for every request of the group, or -1.
func explainedBy(perCand [][]string, got []string, ncand int) int {
	for j := 0; j < ncand; j++ {
		all := true
		for k := range got {
			if perCand[k][j] != got[k] {
				all = false
			}
		}
		if all {
			return j
		}
	}
	return -1
}

func canons(os []outcome) []string {
	out := make([]string, 0, len(os))
	for _, o := range os {
		out = append(out, o.canon())
	}
	return out
}

func mustJSON(v any) string {
	b, err := json.Marshal(v)
	if err != nil {
		return fmt.Sprint(v)
	}
	return string(b)
}

var _ = config.Config{}
