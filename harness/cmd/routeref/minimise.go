package main

// Greedy minimiser for a disagreement: repeatedly drops VirtualServices, rules, match blocks,
// conditions, destinations, services, gateways and request attributes while the same violation
// key is still produced for the same request. Each probe re-runs the real generator.

import (
	"strings"

	"google.golang.org/protobuf/proto"

	networking "istio.io/api/networking/v1alpha3"
	"istio.io/istio/pkg/config/validation"
)

func cloneWorld(w *world) *world {
	n := &world{Proxies: w.Proxies}
	for _, s := range w.Services {
		c := *s
		n.Services = append(n.Services, &c)
	}
	for _, g := range w.Gateways {
		c := *g
		c.Servers = append([]gwServer{}, g.Servers...)
		n.Gateways = append(n.Gateways, &c)
	}
	for _, v := range w.VS {
		c := *v
		c.Spec = proto.Clone(v.Spec).(*networking.VirtualService)
		n.VS = append(n.VS, &c)
	}
	return n
}

func cloneReq(r *request) *request {
	c := *r
	c.Headers = map[string]string{}
	for k, v := range r.Headers {
		c.Headers[k] = v
	}
	return &c
}

func reproduces(w *world, pi int, req *request, key string) (ok bool) {
	defer func() {
		if r := recover(); r != nil {
			ok = false
		}
	}()
	if len(w.Services) == 0 {
		return false
	}
	known := map[string]bool{}
	for _, s := range w.Services {
		known[s.Host] = true
	}
	for _, v := range w.VS {
		if _, err := validation.ValidateVirtualService(vsConfig(v)); err != nil {
			return false
		}
		for _, h := range v.Spec.Http {
			for _, d := range h.Route {
				if !known[resolveShort(d.Destination.Host, v.NS)] {
					return false // keep the reproduction inside the grammar: destinations are registry services
				}
			}
		}
	}
	real := buildReal(w)
	rc := real.routes[pi][req.Port]
	if rc == nil {
		return false
	}
	rw := newRefWorld(w)
	ref := rw.eval(w.Proxies[pi], req)
	if ref.Unspecified != "" {
		return false
	}
	got, _, err := newEnvoyInterp().interpret(rc, req)
	if err != nil {
		return false
	}
	for _, o := range ref.Admissible {
		if o.canon() == got.canon() {
			return false
		}
	}
	return violationKey(rw, w.Proxies[pi], req, ref, got) == key
}

func minimise(w *world, v violation) (*world, *request) {
	if v.req == nil {
		return nil, nil
	}
	cur, req := cloneWorld(w), cloneReq(v.req)
	budget := 120
	try := func(cand *world, creq *request) bool {
		if budget <= 0 {
			return false
		}
		budget--
		if reproduces(cand, v.pi, creq, v.key) {
			cur, req = cand, creq
			return true
		}
		return false
	}
	if !try(cur, req) {
		return nil, nil // not reproducible in isolation (should not happen: the pipeline is deterministic)
	}
	for changed := true; changed && budget > 0; {
		changed = false
		// drop VirtualServices
		for i := 0; i < len(cur.VS); i++ {
			c := cloneWorld(cur)
			c.VS = append(c.VS[:i], c.VS[i+1:]...)
			if try(c, req) {
				changed = true
				i--
			}
		}
		// drop rules, blocks, conditions, destinations
		for vi := 0; vi < len(cur.VS); vi++ {
			for ri := 0; ri < len(cur.VS[vi].Spec.Http); ri++ {
				if len(cur.VS[vi].Spec.Http) > 1 {
					c := cloneWorld(cur)
					sp := c.VS[vi].Spec
					sp.Http = append(sp.Http[:ri], sp.Http[ri+1:]...)
					if try(c, req) {
						changed = true
						ri--
						continue
					}
				}
				for bi := 0; bi < len(cur.VS[vi].Spec.Http[ri].Match); bi++ {
					c := cloneWorld(cur)
					h := c.VS[vi].Spec.Http[ri]
					h.Match = append(h.Match[:bi], h.Match[bi+1:]...)
					if try(c, req) {
						changed = true
						bi--
						continue
					}
					for _, edit := range blockEdits(cur.VS[vi].Spec.Http[ri].Match[bi]) {
						c := cloneWorld(cur)
						edit(c.VS[vi].Spec.Http[ri].Match[bi])
						if try(c, req) {
							changed = true
						}
					}
				}
				if h := cur.VS[vi].Spec.Http[ri]; len(h.Route) > 1 {
					for di := 0; di < len(cur.VS[vi].Spec.Http[ri].Route); di++ {
						if len(cur.VS[vi].Spec.Http[ri].Route) <= 1 {
							break
						}
						c := cloneWorld(cur)
						hh := c.VS[vi].Spec.Http[ri]
						hh.Route = append(hh.Route[:di], hh.Route[di+1:]...)
						if try(c, req) {
							changed = true
							di--
						}
					}
				}
				{
					h := cur.VS[vi].Spec.Http[ri]
					if h.Rewrite != nil || h.Timeout != nil || h.Headers != nil {
						c := cloneWorld(cur)
						hh := c.VS[vi].Spec.Http[ri]
						hh.Rewrite, hh.Timeout, hh.Headers = nil, nil, nil
						if try(c, req) {
							changed = true
						}
					}
				}
			}
			if len(cur.VS[vi].Spec.Hosts) > 1 {
				for hi := 0; hi < len(cur.VS[vi].Spec.Hosts) && len(cur.VS[vi].Spec.Hosts) > 1; hi++ {
					c := cloneWorld(cur)
					sp := c.VS[vi].Spec
					sp.Hosts = append(sp.Hosts[:hi], sp.Hosts[hi+1:]...)
					if try(c, req) {
						changed = true
						hi--
					}
				}
			}
		}
		// drop services, gateways, servers
		for i := 0; i < len(cur.Services); i++ {
			c := cloneWorld(cur)
			c.Services = append(c.Services[:i], c.Services[i+1:]...)
			if try(c, req) {
				changed = true
				i--
			}
		}
		for i := 0; i < len(cur.Gateways); i++ {
			c := cloneWorld(cur)
			c.Gateways = append(c.Gateways[:i], c.Gateways[i+1:]...)
			if try(c, req) {
				changed = true
				i--
				continue
			}
			for j := 0; j < len(cur.Gateways[i].Servers) && len(cur.Gateways[i].Servers) > 1; j++ {
				c := cloneWorld(cur)
				c.Gateways[i].Servers = append(c.Gateways[i].Servers[:j], c.Gateways[i].Servers[j+1:]...)
				if try(c, req) {
					changed = true
					j--
				}
			}
		}
		// request attributes
		for _, k := range sortedKeys(req.Headers) {
			cr := cloneReq(req)
			delete(cr.Headers, k)
			if try(cur, cr) {
				changed = true
			}
		}
		if i := strings.Index(req.Path, "?"); i >= 0 {
			cr := cloneReq(req)
			cr.Path = req.Path[:i]
			if try(cur, cr) {
				changed = true
			}
		}
	}
	return cur, req
}

func blockEdits(m *networking.HTTPMatchRequest) []func(*networking.HTTPMatchRequest) {
	var out []func(*networking.HTTPMatchRequest)
	if m.Uri != nil {
		out = append(out, func(x *networking.HTTPMatchRequest) { x.Uri = nil; x.IgnoreUriCase = false })
	}
	if m.IgnoreUriCase {
		out = append(out, func(x *networking.HTTPMatchRequest) { x.IgnoreUriCase = false })
	}
	for _, k := range sortedKeys(m.Headers) {
		k := k
		out = append(out, func(x *networking.HTTPMatchRequest) { delete(x.Headers, k) })
	}
	for _, k := range sortedKeys(m.WithoutHeaders) {
		k := k
		out = append(out, func(x *networking.HTTPMatchRequest) { delete(x.WithoutHeaders, k) })
	}
	for _, k := range sortedKeys(m.QueryParams) {
		k := k
		out = append(out, func(x *networking.HTTPMatchRequest) { delete(x.QueryParams, k) })
	}
	if m.Method != nil {
		out = append(out, func(x *networking.HTTPMatchRequest) { x.Method = nil })
	}
	if m.Authority != nil {
		out = append(out, func(x *networking.HTTPMatchRequest) { x.Authority = nil })
	}
	if m.Scheme != nil {
		out = append(out, func(x *networking.HTTPMatchRequest) { x.Scheme = nil })
	}
	if m.Port != 0 {
		out = append(out, func(x *networking.HTTPMatchRequest) { x.Port = 0 })
	}
	if len(m.SourceLabels) > 0 {
		out = append(out, func(x *networking.HTTPMatchRequest) { x.SourceLabels = nil })
	}
	if m.SourceNamespace != "" {
		out = append(out, func(x *networking.HTTPMatchRequest) { x.SourceNamespace = "" })
	}
	if len(m.Gateways) > 0 {
		out = append(out, func(x *networking.HTTPMatchRequest) { x.Gateways = nil })
	}
	return out
}
