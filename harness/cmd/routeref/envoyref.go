package main

// Reference (B): an interpreter for envoy.config.route.v3.RouteConfiguration written from the
// Envoy API documentation (route_components.proto, string.proto, regex.proto comments).
// Anything it does not know (matcher kinds, action kinds) yields errUnknown: the case becomes
// inconclusive, never a silent pass.

import (
	"fmt"
	"regexp"
	"strconv"
	"strings"

	core "github.com/envoyproxy/go-control-plane/envoy/config/core/v3"
	route "github.com/envoyproxy/go-control-plane/envoy/config/route/v3"
	matcher "github.com/envoyproxy/go-control-plane/envoy/type/matcher/v3"
)

type errUnknown struct{ what string }

func (e errUnknown) Error() string { return "unknown to the route interpreter: " + e.what }

type interpTrace struct {
	VHost      string `json:"vhost"`
	Domain     string `json:"domain"`
	RouteIndex int    `json:"route_index"`
	RouteName  string `json:"route_name"`
	Examined   int    `json:"routes_examined"`
}

type envoyInterp struct {
	reCache map[string]*regexp.Regexp
	kinds   map[string]bool // matcher / action kinds actually interpreted (evidence)
}

func newEnvoyInterp() *envoyInterp {
	return &envoyInterp{reCache: map[string]*regexp.Regexp{}, kinds: map[string]bool{}}
}

func (e *envoyInterp) saw(k string) { e.kinds[k] = true }

func smKind(sm *matcher.StringMatcher) string {
	k := strings.TrimPrefix(fmt.Sprintf("%T", sm.GetMatchPattern()), "*matcherv3.StringMatcher_")
	if sm.GetIgnoreCase() {
		k += "+ignore_case"
	}
	return k
}

// RE2 full match ("The entire path (without the query string) must match the regex";
// "the entire request header value must match the regex").
func (e *envoyInterp) fullMatch(re, s string) (bool, error) {
	c, ok := e.reCache[re]
	if !ok {
		var err error
		c, err = regexp.Compile(`^(?:` + re + `)$`)
		if err != nil {
			return false, errUnknown{"regex does not compile: " + re}
		}
		e.reCache[re] = c
	}
	return c.MatchString(s), nil
}

func (e *envoyInterp) regexMatcher(rm *matcher.RegexMatcher, s string) (bool, error) {
	if rm == nil {
		return false, errUnknown{"nil regex matcher"}
	}
	switch rm.GetEngineType().(type) {
	case nil, *matcher.RegexMatcher_GoogleRe2:
	default:
		return false, errUnknown{"regex engine"}
	}
	return e.fullMatch(rm.GetRegex(), s)
}

func (e *envoyInterp) stringMatcher(sm *matcher.StringMatcher, s string) (bool, error) {
	if sm == nil {
		return false, errUnknown{"nil string matcher"}
	}
	ic := sm.GetIgnoreCase()
	fold := func(x string) string {
		if ic {
			return strings.ToLower(x)
		}
		return x
	}
	switch p := sm.GetMatchPattern().(type) {
	case *matcher.StringMatcher_Exact:
		return fold(p.Exact) == fold(s), nil
	case *matcher.StringMatcher_Prefix:
		return strings.HasPrefix(fold(s), fold(p.Prefix)), nil
	case *matcher.StringMatcher_Suffix:
		return strings.HasSuffix(fold(s), fold(p.Suffix)), nil
	case *matcher.StringMatcher_Contains:
		return strings.Contains(fold(s), fold(p.Contains)), nil
	case *matcher.StringMatcher_SafeRegex:
		return e.regexMatcher(p.SafeRegex, s) // ignore_case has no effect on safe_regex
	default:
		return false, errUnknown{fmt.Sprintf("string matcher kind %T", p)}
	}
}

// headerValue: pseudo headers come from the request line; names are lower case on the wire.
func headerValue(r *request, name string) (string, bool) {
	switch strings.ToLower(name) {
	case ":authority", "host":
		return r.Authority, true
	case ":method":
		return r.Method, true
	case ":scheme":
		return r.Scheme, true
	case ":path":
		return r.Path, true
	}
	v, ok := r.Headers[strings.ToLower(name)]
	return v, ok
}

func (e *envoyInterp) headerMatcher(hm *route.HeaderMatcher, r *request) (bool, error) {
	val, present := headerValue(r, hm.GetName())
	if _, isPresent := hm.GetHeaderMatchSpecifier().(*route.HeaderMatcher_PresentMatch); isPresent && hm.GetTreatMissingHeaderAsEmpty() {
		return false, errUnknown{"present_match combined with treat_missing_header_as_empty"}
	}
	{
		k := strings.TrimPrefix(fmt.Sprintf("%T", hm.GetHeaderMatchSpecifier()), "*routev3.HeaderMatcher_")
		if sm := hm.GetStringMatch(); sm != nil {
			k += "." + smKind(sm)
		}
		if hm.GetInvertMatch() {
			k += "+invert"
		}
		if hm.GetTreatMissingHeaderAsEmpty() {
			k += "+treat_missing_as_empty"
		}
		if strings.HasPrefix(hm.GetName(), ":") {
			k = hm.GetName() + " " + k
		}
		if !present {
			k += " (header absent)"
		}
		e.saw("header " + k)
	}
	if !present {
		if hm.GetTreatMissingHeaderAsEmpty() {
			val = ""
		} else {
			// "if the header is absent": only present_match can still succeed
			if pm, ok := hm.GetHeaderMatchSpecifier().(*route.HeaderMatcher_PresentMatch); ok {
				// present_match false == header must be absent; invert flips the expectation
				want := pm.PresentMatch
				if hm.GetInvertMatch() {
					want = !want
				}
				return !want, nil
			}
			// "The header match rule will be ignored and not match" irrespective of invert_match
			return false, nil
		}
	}
	var m bool
	var err error
	switch s := hm.GetHeaderMatchSpecifier().(type) {
	case nil:
		// no specifier: presence of the header with any value
		m = true
	case *route.HeaderMatcher_ExactMatch:
		m = val == s.ExactMatch
	case *route.HeaderMatcher_SafeRegexMatch:
		m, err = e.regexMatcher(s.SafeRegexMatch, val)
	case *route.HeaderMatcher_RangeMatch:
		n, perr := strconv.ParseInt(val, 10, 64)
		m = perr == nil && n >= s.RangeMatch.GetStart() && n < s.RangeMatch.GetEnd()
	case *route.HeaderMatcher_PresentMatch:
		// reached only when the header is present
		m = s.PresentMatch
	case *route.HeaderMatcher_PrefixMatch:
		m = strings.HasPrefix(val, s.PrefixMatch)
	case *route.HeaderMatcher_SuffixMatch:
		m = strings.HasSuffix(val, s.SuffixMatch)
	case *route.HeaderMatcher_ContainsMatch:
		m = strings.Contains(val, s.ContainsMatch)
	case *route.HeaderMatcher_StringMatch:
		m, err = e.stringMatcher(s.StringMatch, val)
	default:
		return false, errUnknown{fmt.Sprintf("header matcher kind %T", s)}
	}
	if err != nil {
		return false, err
	}
	if hm.GetInvertMatch() {
		m = !m
	}
	return m, nil
}

func (e *envoyInterp) queryMatcher(qm *route.QueryParameterMatcher, q map[string]string) (bool, error) {
	val, present := q[qm.GetName()]
	{
		k := strings.TrimPrefix(fmt.Sprintf("%T", qm.GetQueryParameterMatchSpecifier()), "*routev3.QueryParameterMatcher_")
		if sm := qm.GetStringMatch(); sm != nil {
			k += "." + smKind(sm)
		}
		if !present {
			k += " (param absent)"
		}
		e.saw("query " + k)
	}
	switch s := qm.GetQueryParameterMatchSpecifier().(type) {
	case nil:
		return present, nil
	case *route.QueryParameterMatcher_PresentMatch:
		return present == s.PresentMatch, nil
	case *route.QueryParameterMatcher_StringMatch:
		if !present {
			return false, nil
		}
		return e.stringMatcher(s.StringMatch, val)
	default:
		return false, errUnknown{fmt.Sprintf("query matcher kind %T", s)}
	}
}

func (e *envoyInterp) routeMatches(m *route.RouteMatch, r *request) (bool, error) {
	if m == nil {
		return false, errUnknown{"route without match"}
	}
	cs := true
	if m.GetCaseSensitive() != nil {
		cs = m.GetCaseSensitive().GetValue()
	}
	path := r.pathOnly()
	fold := func(x string) string {
		if !cs {
			return strings.ToLower(x)
		}
		return x
	}
	e.saw(fmt.Sprintf("path %s case_sensitive=%v", strings.TrimPrefix(fmt.Sprintf("%T", m.GetPathSpecifier()), "*routev3.RouteMatch_"), cs))
	switch ps := m.GetPathSpecifier().(type) {
	case *route.RouteMatch_Prefix:
		if !strings.HasPrefix(fold(path), fold(ps.Prefix)) {
			return false, nil
		}
	case *route.RouteMatch_Path:
		if fold(path) != fold(ps.Path) {
			return false, nil
		}
	case *route.RouteMatch_SafeRegex:
		// case_sensitive is "ignored for safe_regex matching"
		ok, err := e.regexMatcher(ps.SafeRegex, path)
		if err != nil || !ok {
			return false, err
		}
	case *route.RouteMatch_PathSeparatedPrefix:
		p, pre := fold(path), fold(ps.PathSeparatedPrefix)
		if !(p == pre || strings.HasPrefix(p, pre+"/")) {
			return false, nil
		}
	default:
		return false, errUnknown{fmt.Sprintf("path specifier %T", ps)}
	}
	if m.GetRuntimeFraction() != nil || m.GetGrpc() != nil || m.GetTlsContext() != nil || len(m.GetDynamicMetadata()) > 0 || len(m.GetFilterState()) > 0 {
		return false, errUnknown{"route match uses runtime_fraction/grpc/tls_context/dynamic_metadata/filter_state"}
	}
	for _, hm := range m.GetHeaders() {
		ok, err := e.headerMatcher(hm, r)
		if err != nil || !ok {
			return false, err
		}
	}
	if len(m.GetQueryParameters()) > 0 {
		q := r.query()
		for _, qm := range m.GetQueryParameters() {
			ok, err := e.queryMatcher(qm, q)
			if err != nil || !ok {
				return false, err
			}
		}
	}
	return true, nil
}

// selectVHost: "Domain search order: 1. Exact domain names 2. Suffix domain wildcards: *.foo.com
// or *-bar.foo.com 3. Prefix domain wildcards: foo.* or foo-* 4. Special wildcard * matching any
// domain." The longest wildcard wins; a wildcard does not match the empty string.
func selectVHost(rc *route.RouteConfiguration, authority string) (*route.VirtualHost, string) {
	host := strings.ToLower(authority)
	if rc.GetIgnorePortInHostMatching() {
		if h, _, has := splitAuthority(host); has {
			host = h
		}
	}
	var best *route.VirtualHost
	bestDom := ""
	bestRank, bestLen := 0, -1
	for _, vh := range rc.GetVirtualHosts() {
		for _, d := range vh.GetDomains() {
			dl := strings.ToLower(d)
			rank, l := 0, 0
			switch {
			case dl == "*":
				rank = 1
			case strings.HasPrefix(dl, "*"):
				suf := dl[1:]
				if len(host) > len(suf) && strings.HasSuffix(host, suf) {
					rank, l = 3, len(suf)
				}
			case strings.HasSuffix(dl, "*"):
				pre := dl[:len(dl)-1]
				if len(host) > len(pre) && strings.HasPrefix(host, pre) {
					rank, l = 2, len(pre)
				}
			default:
				if dl == host {
					rank = 4
				}
			}
			if rank == 0 {
				continue
			}
			if rank > bestRank || (rank == bestRank && l > bestLen) {
				best, bestDom, bestRank, bestLen = vh, d, rank, l
			}
		}
	}
	return best, bestDom
}

func (e *envoyInterp) interpret(rc *route.RouteConfiguration, r *request) (outcome, interpTrace, error) {
	tr := interpTrace{RouteIndex: -1}
	if rc.GetVhds() != nil {
		return outcome{}, tr, errUnknown{"vhds"}
	}
	vh, dom := selectVHost(rc, r.Authority)
	if vh == nil {
		return outcome{Kind: "noroute"}, tr, nil
	}
	tr.VHost, tr.Domain = vh.GetName(), dom
	switch {
	case dom == "*":
		e.saw("vhost domain *")
	case strings.HasPrefix(dom, "*"):
		e.saw("vhost domain suffix-wildcard")
	case strings.HasSuffix(dom, "*"):
		e.saw("vhost domain prefix-wildcard")
	default:
		e.saw("vhost domain exact")
	}
	if _, _, hp := splitAuthority(r.Authority); hp {
		e.saw(fmt.Sprintf("authority with port, ignore_port_in_host_matching=%v", rc.GetIgnorePortInHostMatching()))
	}
	if vh.GetRequireTls() != route.VirtualHost_NONE {
		return outcome{}, tr, errUnknown{"require_tls"}
	}
	if vh.GetMatcher() != nil {
		return outcome{}, tr, errUnknown{"virtual host matcher tree"}
	}
	for i, rt := range vh.GetRoutes() {
		tr.Examined++
		ok, err := e.routeMatches(rt.GetMatch(), r)
		if err != nil {
			return outcome{}, tr, err
		}
		if !ok {
			continue
		}
		tr.RouteIndex, tr.RouteName = i, rt.GetName()
		e.saw(fmt.Sprintf("action %s", strings.TrimPrefix(fmt.Sprintf("%T", rt.GetAction()), "*routev3.Route_")))
		switch a := rt.GetAction().(type) {
		case *route.Route_Route:
			o := outcome{Kind: "route", Clusters: map[string]int64{}}
			switch cs := a.Route.GetClusterSpecifier().(type) {
			case *route.RouteAction_Cluster:
				if cs.Cluster == "PassthroughCluster" && vh.GetName() == "allow_any" {
					return outcome{Kind: "passthrough"}, tr, nil
				}
				o.Clusters[cs.Cluster] = 1
			case *route.RouteAction_WeightedClusters:
				if cs.WeightedClusters.GetRandomValueSpecifier() != nil {
					return outcome{}, tr, errUnknown{"weighted_clusters random value specifier"}
				}
				for _, cw := range cs.WeightedClusters.GetClusters() {
					if cw.GetName() == "" {
						return outcome{}, tr, errUnknown{"weighted cluster without name"}
					}
					o.Clusters[cw.GetName()] += int64(cw.GetWeight().GetValue())
				}
			default:
				return outcome{}, tr, errUnknown{fmt.Sprintf("cluster specifier %T", cs)}
			}
			return o, tr, nil
		case *route.Route_Redirect:
			rd := a.Redirect
			o := outcome{Kind: "redirect", RHost: rd.GetHostRedirect()}
			switch s := rd.GetSchemeRewriteSpecifier().(type) {
			case nil:
			case *route.RedirectAction_HttpsRedirect:
				if s.HttpsRedirect {
					o.RScheme = "https"
				}
			case *route.RedirectAction_SchemeRedirect:
				o.RScheme = s.SchemeRedirect
			}
			switch s := rd.GetPathRewriteSpecifier().(type) {
			case nil:
			case *route.RedirectAction_PathRedirect:
				o.RPath = s.PathRedirect
			case *route.RedirectAction_PrefixRewrite:
				o.RPrefix = s.PrefixRewrite
			default:
				return outcome{}, tr, errUnknown{fmt.Sprintf("redirect path specifier %T", s)}
			}
			o.RPort = normRedirectPort(rd.GetPortRedirect(), o.RScheme)
			switch rd.GetResponseCode() {
			case route.RedirectAction_MOVED_PERMANENTLY:
				o.RCode = 301
			case route.RedirectAction_FOUND:
				o.RCode = 302
			case route.RedirectAction_SEE_OTHER:
				o.RCode = 303
			case route.RedirectAction_TEMPORARY_REDIRECT:
				o.RCode = 307
			case route.RedirectAction_PERMANENT_REDIRECT:
				o.RCode = 308
			default:
				return outcome{}, tr, errUnknown{"redirect response code"}
			}
			return o, tr, nil
		case *route.Route_DirectResponse:
			o := outcome{Kind: "direct", Status: a.DirectResponse.GetStatus()}
			if b := a.DirectResponse.GetBody(); b != nil {
				switch s := b.GetSpecifier().(type) {
				case *core.DataSource_InlineString:
					o.Body = s.InlineString
				case *core.DataSource_InlineBytes:
					o.Body = string(s.InlineBytes)
				default:
					return outcome{}, tr, errUnknown{fmt.Sprintf("direct response body %T", s)}
				}
			}
			return o, tr, nil
		default:
			return outcome{}, tr, errUnknown{fmt.Sprintf("route action %T", a)}
		}
	}
	return outcome{Kind: "noroute"}, tr, nil
}
