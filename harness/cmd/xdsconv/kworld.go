package main

// kworld.go: stratum K. A small simulated cluster (API-server truth plus an EndpointSlice
// controller that may lag) whose PRNG walk yields Kubernetes operations that are mixed with
// config-store operations in the same batches. The generator only produces objects; the
// authoritative object map the fresh control plane is built from is kept by the world as
// operations are *applied* (kstate), never read back from informers.

import (
	"context"
	"fmt"
	"math/rand"
	"reflect"
	"sort"
	"strings"

	corev1 "k8s.io/api/core/v1"
	discoveryv1 "k8s.io/api/discovery/v1"
	metav1 "k8s.io/apimachinery/pkg/apis/meta/v1"
	kruntime "k8s.io/apimachinery/pkg/runtime"
	"k8s.io/apimachinery/pkg/util/intstr"

	clientnetworking "istio.io/client-go/pkg/apis/networking/v1"
	clientsecurity "istio.io/client-go/pkg/apis/security/v1"
	"istio.io/istio/pkg/config"
	"istio.io/istio/pkg/config/schema/collections"
	"istio.io/istio/pkg/config/schema/gvk"
)

// kop is the Kubernetes payload of a history step (op.K).
type kop struct {
	Kind string          // Namespace | Node | Service | Pod | EndpointSlice
	Obj  kruntime.Object // nil for delete
	Note string
}

func kgvk(kind string) config.GroupVersionKind {
	return config.GroupVersionKind{Group: "k8s", Version: "v1", Kind: "k8s." + kind}
}

var kKindOrder = map[string]int{"Namespace": 0, "Node": 1, "Service": 2, "Pod": 3, "EndpointSlice": 4,
	"PeerAuthentication": 5, "AuthorizationPolicy": 6, "ServiceEntry": 7, "WorkloadEntry": 8}

// ---------------------------------------------------------------------------------------
// authoritative state, updated as operations are applied

type kstate struct {
	objs map[string]kruntime.Object // "Kind/ns/name" -> latest applied object
}

func newKstate(initial []kruntime.Object) *kstate {
	k := &kstate{objs: map[string]kruntime.Object{}}
	for _, o := range initial {
		kind, ns, name := kIdent(o)
		k.objs[kind+"/"+ns+"/"+name] = o.DeepCopyObject()
	}
	return k
}

func kIdent(o kruntime.Object) (kind, ns, name string) {
	switch x := o.(type) {
	case *corev1.Namespace:
		return "Namespace", "", x.Name
	case *corev1.Node:
		return "Node", "", x.Name
	case *corev1.Service:
		return "Service", x.Namespace, x.Name
	case *corev1.Pod:
		return "Pod", x.Namespace, x.Name
	case *discoveryv1.EndpointSlice:
		return "EndpointSlice", x.Namespace, x.Name
	case *clientsecurity.PeerAuthentication:
		return "PeerAuthentication", x.Namespace, x.Name
	case *clientsecurity.AuthorizationPolicy:
		return "AuthorizationPolicy", x.Namespace, x.Name
	case *clientnetworking.ServiceEntry:
		return "ServiceEntry", x.Namespace, x.Name
	case *clientnetworking.WorkloadEntry:
		return "WorkloadEntry", x.Namespace, x.Name
	}
	panic(fmt.Sprintf("unknown kube object %T", o))
}

func (k *kstate) applied(o op) {
	key := o.K.Kind + "/" + o.NS + "/" + o.Name
	if o.Verb == "delete" {
		delete(k.objs, key)
		return
	}
	k.objs[key] = o.K.Obj.DeepCopyObject()
}

// list returns deep copies in a fixed order (kind, namespace, name).
func (k *kstate) list() []kruntime.Object {
	if k == nil {
		return nil
	}
	keys := make([]string, 0, len(k.objs))
	for key := range k.objs {
		keys = append(keys, key)
	}
	sort.Slice(keys, func(i, j int) bool {
		ki, kj := keys[i][:strings.IndexByte(keys[i], '/')], keys[j][:strings.IndexByte(keys[j], '/')]
		if kKindOrder[ki] != kKindOrder[kj] {
			return kKindOrder[ki] < kKindOrder[kj]
		}
		return keys[i] < keys[j]
	})
	out := make([]kruntime.Object, 0, len(keys))
	for _, key := range keys {
		out = append(out, k.objs[key].DeepCopyObject())
	}
	return out
}

var kbg = context.Background()

// applyKube issues one Kubernetes operation through the server's fake clientset.
func (s *server) applyKube(o op) error {
	k := s.srv.KubeClient().Kube()
	var err error
	obj := kruntime.Object(nil)
	if o.K.Obj != nil {
		obj = o.K.Obj.DeepCopyObject()
	}
	switch o.K.Kind {
	case "Namespace":
		switch o.Verb {
		case "create":
			_, err = k.CoreV1().Namespaces().Create(kbg, obj.(*corev1.Namespace), metav1.CreateOptions{})
		case "update":
			_, err = k.CoreV1().Namespaces().Update(kbg, obj.(*corev1.Namespace), metav1.UpdateOptions{})
		case "delete":
			err = k.CoreV1().Namespaces().Delete(kbg, o.Name, metav1.DeleteOptions{})
		}
	case "Node":
		switch o.Verb {
		case "create":
			_, err = k.CoreV1().Nodes().Create(kbg, obj.(*corev1.Node), metav1.CreateOptions{})
		case "update":
			_, err = k.CoreV1().Nodes().Update(kbg, obj.(*corev1.Node), metav1.UpdateOptions{})
		case "delete":
			err = k.CoreV1().Nodes().Delete(kbg, o.Name, metav1.DeleteOptions{})
		}
	case "Service":
		switch o.Verb {
		case "create":
			_, err = k.CoreV1().Services(o.NS).Create(kbg, obj.(*corev1.Service), metav1.CreateOptions{})
		case "update":
			_, err = k.CoreV1().Services(o.NS).Update(kbg, obj.(*corev1.Service), metav1.UpdateOptions{})
		case "delete":
			err = k.CoreV1().Services(o.NS).Delete(kbg, o.Name, metav1.DeleteOptions{})
		}
	case "Pod":
		switch o.Verb {
		case "create":
			_, err = k.CoreV1().Pods(o.NS).Create(kbg, obj.(*corev1.Pod), metav1.CreateOptions{})
		case "update":
			_, err = k.CoreV1().Pods(o.NS).Update(kbg, obj.(*corev1.Pod), metav1.UpdateOptions{})
		case "delete":
			err = k.CoreV1().Pods(o.NS).Delete(kbg, o.Name, metav1.DeleteOptions{})
		}
	case "EndpointSlice":
		switch o.Verb {
		case "create":
			_, err = k.DiscoveryV1().EndpointSlices(o.NS).Create(kbg, obj.(*discoveryv1.EndpointSlice), metav1.CreateOptions{})
		case "update":
			_, err = k.DiscoveryV1().EndpointSlices(o.NS).Update(kbg, obj.(*discoveryv1.EndpointSlice), metav1.UpdateOptions{})
		case "delete":
			err = k.DiscoveryV1().EndpointSlices(o.NS).Delete(kbg, o.Name, metav1.DeleteOptions{})
		}
	case "PeerAuthentication":
		cl := s.srv.KubeClient().Istio().SecurityV1().PeerAuthentications(o.NS)
		switch o.Verb {
		case "create":
			_, err = cl.Create(kbg, obj.(*clientsecurity.PeerAuthentication), metav1.CreateOptions{})
		case "update":
			_, err = cl.Update(kbg, obj.(*clientsecurity.PeerAuthentication), metav1.UpdateOptions{})
		case "delete":
			err = cl.Delete(kbg, o.Name, metav1.DeleteOptions{})
		}
	case "AuthorizationPolicy":
		cl := s.srv.KubeClient().Istio().SecurityV1().AuthorizationPolicies(o.NS)
		switch o.Verb {
		case "create":
			_, err = cl.Create(kbg, obj.(*clientsecurity.AuthorizationPolicy), metav1.CreateOptions{})
		case "update":
			_, err = cl.Update(kbg, obj.(*clientsecurity.AuthorizationPolicy), metav1.UpdateOptions{})
		case "delete":
			err = cl.Delete(kbg, o.Name, metav1.DeleteOptions{})
		}
	case "ServiceEntry":
		cl := s.srv.KubeClient().Istio().NetworkingV1().ServiceEntries(o.NS)
		switch o.Verb {
		case "create":
			_, err = cl.Create(kbg, obj.(*clientnetworking.ServiceEntry), metav1.CreateOptions{})
		case "update":
			_, err = cl.Update(kbg, obj.(*clientnetworking.ServiceEntry), metav1.UpdateOptions{})
		case "delete":
			err = cl.Delete(kbg, o.Name, metav1.DeleteOptions{})
		}
	case "WorkloadEntry":
		cl := s.srv.KubeClient().Istio().NetworkingV1().WorkloadEntries(o.NS)
		switch o.Verb {
		case "create":
			_, err = cl.Create(kbg, obj.(*clientnetworking.WorkloadEntry), metav1.CreateOptions{})
		case "update":
			_, err = cl.Update(kbg, obj.(*clientnetworking.WorkloadEntry), metav1.UpdateOptions{})
		case "delete":
			err = cl.Delete(kbg, o.Name, metav1.DeleteOptions{})
		}
	default:
		err = fmt.Errorf("unknown kube kind %q", o.K.Kind)
	}
	return err
}

// ---------------------------------------------------------------------------------------
// proxies and pools of stratum K

// The four proxies of the config-store stratum (no pod: service targets and labels come from node
// metadata) plus two pod-backed sidecars with one connection each.
var proxiesK = []proxySpec{
	{name: "client-a", ns: "ns1", ptype: "sidecar", ip: "10.50.0.1", labels: map[string]string{"app": "client-a"}},
	{name: "client-b", ns: "ns2", ptype: "sidecar", ip: "10.50.0.2", labels: map[string]string{"app": "client-b"}},
	{name: "plain", ns: "ns3", ptype: "sidecar", ip: "10.50.0.3"},
	{name: "igw", ns: "istio-system", ptype: "router", ip: "10.50.0.4", labels: map[string]string{"istio": "ingressgateway"}},
	{name: "kpod-a", ns: "ns1", ptype: "sidecar", ip: "10.50.1.1", labels: map[string]string{"app": "client-a", "version": "v1"}, mode: 1, pod: true},
	{name: "kpod-b", ns: "ns2", ptype: "sidecar", ip: "10.50.1.2", labels: map[string]string{"app": "client-b", "version": "v2"}, mode: 2, pod: true},
}

var hostPoolK = []string{
	"a.example.com", "b.example.com", "e.ns1.svc.cluster.local",
	"ka.ns1.svc.cluster.local", "ka.ns1.svc.cluster.local", "kb.ns2.svc.cluster.local", "kh.ns1.svc.cluster.local", "kc.ns3.svc.cluster.local",
}

type ksvcDef struct {
	ns, name, typ string // typ: clusterip | headless | manual-headless | externalname | gateway
	ip            string
}

var ksvcPool = []ksvcDef{
	{"ns1", "e", "clusterip", "10.96.1.1"},
	{"ns1", "ka", "clusterip", "10.96.1.2"},
	{"ns1", "kh", "headless", ""},
	{"ns1", "kx", "externalname", ""},
	{"ns2", "kb", "clusterip", "10.96.2.1"},
	{"ns2", "kh", "manual-headless", ""},
	{"ns3", "kc", "clusterip", "10.96.3.1"},
	{"istio-system", "igw", "gateway", "10.96.0.10"},
}

var (
	kAppLabels = []string{"client-a", "client-b", "we-a", "we-b"}
	kSAs       = []string{"sa-a", "sa-b", "default"}
	kNodes     = []string{"node-1", "node-2", "node-3"}
)

// ---------------------------------------------------------------------------------------
// simulated cluster

type kgen struct {
	r      *rand.Rand
	ts     int64 // creation timestamps: unique, increasing
	rv     int64
	ipSeq  int
	freeIP []string

	nss    map[string]*corev1.Namespace
	svcs   map[string]*corev1.Service // "ns/name"
	pods   map[string]*corev1.Pod
	slices map[string]*discoveryv1.EndpointSlice
	assign map[string]map[string]int // service -> pod name -> slice index (sticky)
	dirty  map[string]bool           // services the slice controller has not reconciled yet
	counts map[string]int            // ops by kind (evidence)
	// ambient (stratum Z): namespaces may carry istio.io/dataplane-mode, pods the redirection annotation
	ambient bool
}

func newKgen(r *rand.Rand) *kgen {
	return &kgen{r: r, ts: 1690000000, nss: map[string]*corev1.Namespace{}, svcs: map[string]*corev1.Service{}, pods: map[string]*corev1.Pod{},
		slices: map[string]*discoveryv1.EndpointSlice{}, assign: map[string]map[string]int{}, dirty: map[string]bool{}, counts: map[string]int{}}
}

func (g *kgen) meta(ns, name string, labels, annos map[string]string) metav1.ObjectMeta {
	g.ts++
	g.rv++
	return metav1.ObjectMeta{Name: name, Namespace: ns, Labels: labels, Annotations: annos, CreationTimestamp: metav1.Unix(g.ts, 0), ResourceVersion: fmt.Sprint(g.rv)}
}

func (g *kgen) bump(m *metav1.ObjectMeta) {
	g.rv++
	m.ResourceVersion = fmt.Sprint(g.rv)
}

func sortedKeysOf[V any](m map[string]V) []string {
	out := make([]string, 0, len(m))
	for k := range m {
		out = append(out, k)
	}
	sort.Strings(out)
	return out
}

func copyMap(m map[string]string) map[string]string {
	if m == nil {
		return nil
	}
	out := make(map[string]string, len(m))
	for k, v := range m {
		out[k] = v
	}
	return out
}

func (g *kgen) emit(verb, kind string, o kruntime.Object, ns, name, note string) op {
	g.counts[verb+" "+kind]++
	var obj kruntime.Object
	if o != nil {
		obj = o.DeepCopyObject()
	}
	return op{Verb: verb, Kind: kgvk(kind), NS: ns, Name: name, K: &kop{Kind: kind, Obj: obj, Note: note}}
}

// initial returns the objects present before any client connects: namespaces, nodes, the pods of
// the pod-backed proxies and a PRNG choice of services with pods and reconciled slices.
func (g *kgen) initial() []kruntime.Object {
	out := g.initialBase()
	// a few services and pods that exist from the start
	for i, n := 0, 1+g.r.Intn(5); i < n; i++ {
		for _, o := range g.stepPod(true) {
			out = append(out, o.K.Obj)
		}
	}
	for i, n := 0, 1+g.r.Intn(3); i < n; i++ {
		for _, o := range g.stepService(true) {
			out = append(out, o.K.Obj)
		}
	}
	for _, o := range g.syncDirty() {
		out = append(out, o.K.Obj)
	}
	g.counts = map[string]int{}
	return out
}

func (g *kgen) newPod(ns, name string, labels map[string]string, sa, node, ip string, ready bool) *corev1.Pod {
	p := &corev1.Pod{
		ObjectMeta: g.meta(ns, name, labels, nil),
		Spec: corev1.PodSpec{ServiceAccountName: sa, NodeName: node, Containers: []corev1.Container{{Name: "app", Ports: []corev1.ContainerPort{
			{Name: "http", ContainerPort: 8080, Protocol: corev1.ProtocolTCP}, {Name: "tcp", ContainerPort: 9000, Protocol: corev1.ProtocolTCP}}}}},
		Status: corev1.PodStatus{Phase: corev1.PodPending},
	}
	if ip != "" {
		p.Status.Phase = corev1.PodRunning
		p.Status.PodIP, p.Status.PodIPs = ip, []corev1.PodIP{{IP: ip}}
		setReady(p, ready)
	}
	return p
}

func setReady(p *corev1.Pod, ready bool) {
	st := corev1.ConditionFalse
	if ready {
		st = corev1.ConditionTrue
	}
	p.Status.Conditions = []corev1.PodCondition{{Type: corev1.PodReady, Status: st}}
}

func podReady(p *corev1.Pod) bool {
	for _, c := range p.Status.Conditions {
		if c.Type == corev1.PodReady {
			return c.Status == corev1.ConditionTrue
		}
	}
	return false
}

func (g *kgen) nextIP() string {
	if len(g.freeIP) > 0 && g.r.Intn(4) == 0 {
		i := g.r.Intn(len(g.freeIP))
		ip := g.freeIP[i]
		g.freeIP = append(g.freeIP[:i], g.freeIP[i+1:]...)
		return ip
	}
	g.ipSeq++
	return fmt.Sprintf("10.40.%d.%d", g.ipSeq/200, 1+g.ipSeq%200)
}

func (g *kgen) podLabels() map[string]string {
	l := map[string]string{"app": pick(g.r, kAppLabels), "version": pick(g.r, []string{"v1", "v2"})}
	if g.ambient {
		return l
	}
	if g.r.Intn(3) != 0 {
		l["security.istio.io/tlsMode"] = "istio"
	}
	return l
}

const (
	ambientRedirection = "ambient.istio.io/redirection"
	dataplaneMode      = "istio.io/dataplane-mode"
)

// stepAmbient: the CNI agent marks / unmarks a pod as captured, or a namespace joins / leaves ambient.
func (g *kgen) stepAmbient() []op {
	r := g.r
	keys := sortedKeysOf(g.pods)
	if len(keys) > 0 && r.Intn(3) != 0 {
		p := g.pods[keys[r.Intn(len(keys))]]
		if p.Annotations == nil {
			p.Annotations = map[string]string{}
		}
		note := ""
		if p.Annotations[ambientRedirection] == "" {
			p.Annotations[ambientRedirection] = "enabled"
			note = "redirection=enabled"
		} else {
			delete(p.Annotations, ambientRedirection)
			note = "redirection=off"
		}
		g.bump(&p.ObjectMeta)
		return []op{g.emit("update", "Pod", p, p.Namespace, p.Name, note)}
	}
	ns := pick(r, namespaces)
	n := g.nss[ns]
	note := ""
	switch n.Labels[dataplaneMode] {
	case "":
		n.Labels[dataplaneMode] = "ambient"
	case "ambient":
		if r.Intn(2) == 0 {
			n.Labels[dataplaneMode] = "none"
		} else {
			delete(n.Labels, dataplaneMode)
		}
	default:
		n.Labels[dataplaneMode] = "ambient"
	}
	note = dataplaneMode + "=" + n.Labels[dataplaneMode]
	g.bump(&n.ObjectMeta)
	return []op{g.emit("update", "Namespace", n, "", ns, note)}
}

func (g *kgen) markDirtyNS(ns string) {
	for _, k := range sortedKeysOf(g.svcs) {
		if strings.HasPrefix(k, ns+"/") {
			g.dirty[k] = true
		}
	}
	// services that were deleted but still own slices
	for _, k := range sortedKeysOf(g.assign) {
		if strings.HasPrefix(k, ns+"/") {
			g.dirty[k] = true
		}
	}
}

// stepPod performs one pod life-cycle step; create==true forces a creation.
func (g *kgen) stepPod(create bool) []op {
	r := g.r
	keys := sortedKeysOf(g.pods)
	if !create && len(keys) > 0 && r.Intn(4) != 0 {
		key := keys[r.Intn(len(keys))]
		p := g.pods[key]
		isProxy := strings.HasPrefix(p.Name, "kpod-")
		var note string
		switch x := r.Intn(12); {
		case p.Status.PodIP == "" && x < 9: // Pending -> Running (IP assigned), ready or not
			ip := g.nextIP()
			p.Status.Phase, p.Status.PodIP, p.Status.PodIPs = corev1.PodRunning, ip, []corev1.PodIP{{IP: ip}}
			setReady(p, r.Intn(2) == 0)
			note = "ip-assigned"
		case x < 5: // readiness flip
			if p.Status.PodIP == "" || p.DeletionTimestamp != nil {
				return nil
			}
			setReady(p, !podReady(p))
			note = fmt.Sprintf("ready=%v", podReady(p))
		case x < 8: // label edit
			l := copyMap(p.Labels)
			switch r.Intn(4) {
			case 0:
				l["app"] = pick(r, kAppLabels)
			case 1:
				l["version"] = pick(r, []string{"v1", "v2"})
			case 2:
				if _, ok := l["security.istio.io/tlsMode"]; ok {
					delete(l, "security.istio.io/tlsMode")
				} else {
					l["security.istio.io/tlsMode"] = "istio"
				}
			default:
				l["app"], l["version"] = pick(r, kAppLabels), pick(r, []string{"v1", "v2"})
			}
			if reflect.DeepEqual(l, p.Labels) {
				note = "noop-update"
			} else {
				note = "relabel"
			}
			p.Labels = l
		case x < 9: // no-op update
			note = "noop-update"
		case x < 11: // graceful termination starts (deletionTimestamp), pod stays in the API
			if isProxy || p.DeletionTimestamp != nil {
				return nil
			}
			g.ts++
			t := metav1.Unix(g.ts, 0)
			p.DeletionTimestamp = &t
			if r.Intn(2) == 0 {
				setReady(p, false)
			}
			note = "terminating"
		default: // removed from the API
			if isProxy {
				return nil
			}
			delete(g.pods, key)
			if p.Status.PodIP != "" {
				g.freeIP = append(g.freeIP, p.Status.PodIP)
			}
			g.markDirtyNS(p.Namespace)
			return []op{g.emit("delete", "Pod", nil, p.Namespace, p.Name, "deleted")}
		}
		g.bump(&p.ObjectMeta)
		g.markDirtyNS(p.Namespace)
		return []op{g.emit("update", "Pod", p, p.Namespace, p.Name, note)}
	}
	ns := pick(r, namespaces)
	name := fmt.Sprintf("p%d", r.Intn(5))
	if _, exists := g.pods[ns+"/"+name]; exists {
		return nil
	}
	ip, ready := "", false
	if r.Intn(2) == 0 {
		ip, ready = g.nextIP(), r.Intn(4) != 0
	}
	p := g.newPod(ns, name, g.podLabels(), pick(r, kSAs), pick(r, kNodes), ip, ready)
	if g.ambient && r.Intn(2) == 0 {
		p.Annotations = map[string]string{ambientRedirection: "enabled"}
	}
	g.pods[ns+"/"+name] = p
	g.markDirtyNS(ns)
	return []op{g.emit("create", "Pod", p, ns, name, fmt.Sprintf("ip=%q ready=%v", ip, ready))}
}

func (g *kgen) svcPorts(def ksvcDef) []corev1.ServicePort {
	r := g.r
	var out []corev1.ServicePort
	seenNum, seenName := map[uint32]bool{}, map[string]bool{}
	pool := portPool
	if def.typ == "gateway" {
		pool = []portDef{{80, "http", "HTTP"}, {8080, "http-alt", "HTTP"}, {9000, "tcp", "TCP"}}
	}
	for i, n := 0, 1+r.Intn(3); i < n; i++ {
		p := pick(r, pool)
		name := p.name
		switch r.Intn(8) {
		case 0:
			name = p.name + "-b" // rename, protocol kept
		case 1:
			name = fmt.Sprintf("tcp-%d", p.num) // rename, protocol becomes TCP
		}
		if seenNum[p.num] || seenName[name] {
			continue
		}
		seenNum[p.num], seenName[name] = true, true
		target := int32(p.num)
		if r.Intn(3) == 0 || def.typ == "gateway" {
			target = int32(p.num) + 8000
			if p.num >= 8000 {
				target = int32(p.num) + 1
			}
		}
		out = append(out, corev1.ServicePort{Name: name, Port: int32(p.num), TargetPort: intstr.FromInt32(target), Protocol: corev1.ProtocolTCP})
	}
	return out
}

func (g *kgen) svcSelector(def ksvcDef) map[string]string {
	switch def.typ {
	case "manual-headless", "externalname":
		return nil
	case "gateway":
		return map[string]string{"istio": "ingressgateway"}
	}
	s := map[string]string{"app": pick(g.r, kAppLabels)}
	// most of the time a service selects something that exists
	var apps []string
	for _, pk := range sortedKeysOf(g.pods) {
		if p := g.pods[pk]; p.Namespace == def.ns && p.Labels["app"] != "" {
			apps = append(apps, p.Labels["app"])
		}
	}
	if len(apps) > 0 && g.r.Intn(5) < 3 {
		s["app"] = pick(g.r, apps)
	}
	if g.r.Intn(4) == 0 {
		s["version"] = pick(g.r, []string{"v1", "v2"})
	}
	return s
}

func (g *kgen) svcAnnotations() map[string]string {
	if g.r.Intn(40) == 0 {
		return map[string]string{"networking.istio.io/exportTo": "~"}
	}
	switch g.r.Intn(12) {
	case 0:
		return map[string]string{"networking.istio.io/exportTo": "."}
	case 1:
		return map[string]string{"networking.istio.io/exportTo": "*"}
	case 2:
		return map[string]string{"networking.istio.io/exportTo": pick(g.r, namespaces)}
	case 3:
		return map[string]string{"networking.istio.io/exportTo": ".," + pick(g.r, namespaces)}
	}
	return nil
}

// stepService creates, edits or deletes a service.
func (g *kgen) stepService(create bool) []op {
	r := g.r
	def := pick(r, ksvcPool)
	key := def.ns + "/" + def.name
	cur := g.svcs[key]
	if cur == nil {
		s := &corev1.Service{ObjectMeta: g.meta(def.ns, def.name, map[string]string{"app": def.name}, g.svcAnnotations())}
		s.Spec.Ports = g.svcPorts(def)
		s.Spec.Selector = g.svcSelector(def)
		switch def.typ {
		case "headless", "manual-headless":
			s.Spec.ClusterIP, s.Spec.ClusterIPs = corev1.ClusterIPNone, []string{corev1.ClusterIPNone}
			s.Spec.Type = corev1.ServiceTypeClusterIP
		case "externalname":
			s.Spec.Type, s.Spec.ExternalName = corev1.ServiceTypeExternalName, pick(r, []string{"up1.example.org", "up2.example.org"})
		default:
			s.Spec.Type, s.Spec.ClusterIP, s.Spec.ClusterIPs = corev1.ServiceTypeClusterIP, def.ip, []string{def.ip}
		}
		g.svcs[key] = s
		g.dirty[key] = true
		return []op{g.emit("create", "Service", s, def.ns, def.name, def.typ)}
	}
	if create {
		return nil
	}
	var note string
	switch x := r.Intn(12); {
	case x < 4:
		cur.Spec.Ports = g.svcPorts(def)
		note = "ports"
	case x < 6:
		if def.typ == "externalname" {
			cur.Spec.ExternalName = pick(r, []string{"up1.example.org", "up2.example.org"})
		} else {
			cur.Spec.Selector = g.svcSelector(def)
		}
		note = "selector"
	case x < 7:
		cur.Labels = map[string]string{"app": def.name, "rev": fmt.Sprint(r.Intn(3))}
		note = "labels"
	case x < 9:
		cur.Annotations = g.svcAnnotations()
		note = "exportTo=" + cur.Annotations["networking.istio.io/exportTo"]
	case x < 10:
		note = "noop-update"
	default:
		delete(g.svcs, key)
		g.dirty[key] = true
		return []op{g.emit("delete", "Service", nil, def.ns, def.name, "deleted")}
	}
	g.bump(&cur.ObjectMeta)
	g.dirty[key] = true
	return []op{g.emit("update", "Service", cur, def.ns, def.name, note)}
}

func selects(sel, labels map[string]string) bool {
	if len(sel) == 0 {
		return false
	}
	for k, v := range sel {
		if labels[k] != v {
			return false
		}
	}
	return true
}

func sliceName(svc string, i int) string { return fmt.Sprintf("%s-s%d", svc, i) }

const maxSlices = 3

// reconcile is the simulated EndpointSlice controller for one service: slices follow the pods the
// selector matches *now*; membership of a slice is sticky. first, when >= 0, is written first (moves).
func (g *kgen) reconcile(key string, first int) []op {
	r := g.r
	ns, name, _ := strings.Cut(key, "/")
	svc := g.svcs[key]
	var out []op
	want := map[int][]discoveryv1.Endpoint{}
	var ports []discoveryv1.EndpointPort
	def := ksvcDef{}
	for _, d := range ksvcPool {
		if d.ns == ns && d.name == name {
			def = d
		}
	}
	if svc != nil && def.typ != "externalname" {
		for _, sp := range svc.Spec.Ports {
			n, num, pr := sp.Name, sp.TargetPort.IntVal, corev1.ProtocolTCP
			ports = append(ports, discoveryv1.EndpointPort{Name: &n, Port: &num, Protocol: &pr})
		}
		if def.typ == "manual-headless" {
			// addresses maintained by hand: no targetRef
			for i, n := 0, 1+r.Intn(3); i < n; i++ {
				ip := fmt.Sprintf("10.30.0.%d", 1+r.Intn(4))
				dup := false
				for _, e := range want[0] {
					if e.Addresses[0] == ip {
						dup = true
					}
				}
				if !dup {
					tr := true
					want[0] = append(want[0], discoveryv1.Endpoint{Addresses: []string{ip}, Conditions: discoveryv1.EndpointConditions{Ready: &tr}})
				}
			}
		} else {
			as := g.assign[key]
			if as == nil {
				as = map[string]int{}
				g.assign[key] = as
			}
			members := map[string]bool{}
			for _, pk := range sortedKeysOf(g.pods) {
				p := g.pods[pk]
				if p.Namespace != ns || p.Status.PodIP == "" || !selects(svc.Spec.Selector, p.Labels) {
					continue
				}
				members[p.Name] = true
				idx, ok := as[p.Name]
				if !ok {
					idx = r.Intn(maxSlices)
					as[p.Name] = idx
				}
				term := p.DeletionTimestamp != nil
				ready, serving := podReady(p) && !term, podReady(p)
				node := p.Spec.NodeName
				want[idx] = append(want[idx], discoveryv1.Endpoint{
					Addresses:  []string{p.Status.PodIP},
					Conditions: discoveryv1.EndpointConditions{Ready: &ready, Serving: &serving, Terminating: &term},
					TargetRef:  &corev1.ObjectReference{Kind: "Pod", Name: p.Name, Namespace: p.Namespace},
					NodeName:   &node,
				})
			}
			for _, pn := range sortedKeysOf(as) {
				if !members[pn] {
					delete(as, pn)
				}
			}
		}
	} else {
		delete(g.assign, key)
	}
	order := []int{}
	if first >= 0 {
		order = append(order, first)
	}
	for i := 0; i < maxSlices; i++ {
		if i != first {
			order = append(order, i)
		}
	}
	for _, i := range order {
		sk := ns + "/" + sliceName(name, i)
		cur := g.slices[sk]
		eps := want[i]
		if len(eps) == 0 {
			if cur == nil {
				continue
			}
			if svc != nil && r.Intn(3) == 0 && len(cur.Endpoints) > 0 {
				// the controller sometimes keeps an empty slice
				cur.Endpoints, cur.Ports = nil, ports
				g.bump(&cur.ObjectMeta)
				out = append(out, g.emit("update", "EndpointSlice", cur, ns, cur.Name, "emptied"))
				continue
			}
			if svc != nil && len(cur.Endpoints) == 0 && reflect.DeepEqual(cur.Ports, ports) {
				continue
			}
			delete(g.slices, sk)
			out = append(out, g.emit("delete", "EndpointSlice", nil, ns, cur.Name, "removed"))
			continue
		}
		if cur == nil {
			s := &discoveryv1.EndpointSlice{
				ObjectMeta: g.meta(ns, sliceName(name, i), map[string]string{discoveryv1.LabelServiceName: name,
					"endpointslice.kubernetes.io/managed-by": "endpointslice-controller.k8s.io"}, nil),
				AddressType: discoveryv1.AddressTypeIPv4, Endpoints: eps, Ports: ports,
			}
			g.slices[sk] = s
			out = append(out, g.emit("create", "EndpointSlice", s, ns, s.Name, fmt.Sprintf("%d endpoints", len(eps))))
			continue
		}
		if reflect.DeepEqual(cur.Endpoints, eps) && reflect.DeepEqual(cur.Ports, ports) {
			continue
		}
		cur.Endpoints, cur.Ports = eps, ports
		g.bump(&cur.ObjectMeta)
		out = append(out, g.emit("update", "EndpointSlice", cur, ns, cur.Name, fmt.Sprintf("%d endpoints", len(eps))))
	}
	delete(g.dirty, key)
	return out
}

func (g *kgen) syncDirty() []op {
	var out []op
	for _, k := range sortedKeysOf(g.dirty) {
		out = append(out, g.reconcile(k, -1)...)
	}
	return out
}

// stepMove moves one address from its slice to another one of the same service; the destination is
// written first, so the address is transiently in both (identical content).
func (g *kgen) stepMove() []op {
	var cands []string
	for _, k := range sortedKeysOf(g.assign) {
		if len(g.assign[k]) > 0 && g.svcs[k] != nil {
			cands = append(cands, k)
		}
	}
	if len(cands) == 0 {
		return nil
	}
	key := pick(g.r, cands)
	pods := sortedKeysOf(g.assign[key])
	pn := pick(g.r, pods)
	old := g.assign[key][pn]
	nw := (old + 1 + g.r.Intn(maxSlices-1)) % maxSlices
	ns, name, _ := strings.Cut(key, "/")
	out := []op{}
	// destination first: current content of the destination plus the moved endpoint
	if src := g.slices[ns+"/"+sliceName(name, old)]; src != nil {
		var moved *discoveryv1.Endpoint
		for i := range src.Endpoints {
			if src.Endpoints[i].TargetRef != nil && src.Endpoints[i].TargetRef.Name == pn {
				moved = src.Endpoints[i].DeepCopy()
			}
		}
		if moved != nil {
			dk := ns + "/" + sliceName(name, nw)
			if dst := g.slices[dk]; dst != nil {
				dst.Endpoints = append(dst.Endpoints, *moved)
				g.bump(&dst.ObjectMeta)
				out = append(out, g.emit("update", "EndpointSlice", dst, ns, dst.Name, "move-in "+pn))
			} else {
				s := &discoveryv1.EndpointSlice{
					ObjectMeta: g.meta(ns, sliceName(name, nw), map[string]string{discoveryv1.LabelServiceName: name,
						"endpointslice.kubernetes.io/managed-by": "endpointslice-controller.k8s.io"}, nil),
					AddressType: discoveryv1.AddressTypeIPv4, Endpoints: []discoveryv1.Endpoint{*moved}, Ports: src.Ports,
				}
				g.slices[dk] = s
				out = append(out, g.emit("create", "EndpointSlice", s, ns, s.Name, "move-in "+pn))
			}
			// source: without the moved endpoint
			var rest []discoveryv1.Endpoint
			for _, e := range src.Endpoints {
				if e.TargetRef == nil || e.TargetRef.Name != pn {
					rest = append(rest, e)
				}
			}
			if len(rest) == 0 {
				delete(g.slices, ns+"/"+src.Name)
				out = append(out, g.emit("delete", "EndpointSlice", nil, ns, src.Name, "move-out "+pn))
			} else {
				src.Endpoints = rest
				g.bump(&src.ObjectMeta)
				out = append(out, g.emit("update", "EndpointSlice", src, ns, src.Name, "move-out "+pn))
			}
		}
	}
	g.assign[key][pn] = nw
	return out
}

func (g *kgen) stepNamespace() []op {
	ns := pick(g.r, namespaces)
	n := g.nss[ns]
	if n.Annotations == nil {
		n.Annotations = map[string]string{}
	}
	note := ""
	if g.r.Intn(2) == 0 {
		if n.Annotations["networking.istio.io/traffic-distribution"] == "" {
			n.Annotations["networking.istio.io/traffic-distribution"] = "PreferClose"
		} else {
			delete(n.Annotations, "networking.istio.io/traffic-distribution")
		}
		note = "traffic-distribution=" + n.Annotations["networking.istio.io/traffic-distribution"]
	} else {
		if n.Labels["istio-injection"] == "" {
			n.Labels["istio-injection"] = "enabled"
		} else {
			delete(n.Labels, "istio-injection")
		}
		note = "istio-injection=" + n.Labels["istio-injection"]
	}
	g.bump(&n.ObjectMeta)
	return []op{g.emit("update", "Namespace", n, "", ns, note)}
}

// step performs one logical cluster step, possibly followed by the slice controller catching up.
func (g *kgen) step() []op {
	r := g.r
	var out []op
	switch x := r.Intn(20); {
	case x < 9:
		out = g.stepPod(false)
	case x < 14:
		out = g.stepService(false)
	case x < 16:
		out = g.stepMove()
	case x < 17:
		out = g.stepNamespace()
	case x < 18:
		// the hand-maintained slice of the selector-less headless service is edited
		if g.svcs["ns2/kh"] != nil {
			out = g.reconcile("ns2/kh", -1)
		}
	default:
		out = g.syncDirty()
	}
	if len(g.dirty) > 0 && r.Intn(20) < 11 {
		out = append(out, g.syncDirty()...)
	}
	return out
}

// ---------------------------------------------------------------------------------------
// mixed history

// cfgStepper draws config-store operations exactly like genHistory does (same verbs, pools and
// validation), one at a time, so that they can be interleaved with cluster steps.
type cfgStepper struct {
	live  map[objKey]op
	order []objKey
	kinds []config.GroupVersionKind // kinds drawn on create; nil = the config-store stratum's pool
}

func (cs *cfgStepper) step(r *rand.Rand, i int) (op, bool) {
	verb := "create"
	if len(cs.order) > 0 {
		switch x := r.Intn(10); {
		case x < 4:
			verb = "create"
		case x < 7:
			verb = "update"
		case x < 8:
			verb = "noop-update"
		default:
			verb = "delete"
		}
	}
	var o op
	var key objKey
	isNew := false
	pool := cs.kinds
	if pool == nil {
		pool = kinds
	}
	switch verb {
	case "create":
		k := pick(r, pool)
		ns := pick(r, namespaces)
		if (k == gvk.PeerAuthentication || k == gvk.Sidecar || k == gvk.EnvoyFilter || k == gvk.Telemetry || k == gvk.AuthorizationPolicy) && r.Intn(5) == 0 {
			ns = rootNS
		}
		if k == gvk.Gateway {
			ns = rootNS
		}
		name := fmt.Sprintf("%s-%d", kindShort(k), r.Intn(3))
		if k == gvk.Gateway {
			name = pick(r, []string{"gw-a", "gw-b"})
		}
		key = objKey{k, ns, name}
		if prev, exists := cs.live[key]; exists {
			o = op{Verb: "update", Kind: k, NS: ns, Name: name, Spec: genSpec(r, k, ns), TS: prev.TS}
		} else {
			o = op{Verb: "create", Kind: k, NS: ns, Name: name, Spec: genSpec(r, k, ns), TS: 1700000000 + int64(i)}
			isNew = true
		}
	case "update", "noop-update":
		key = cs.order[r.Intn(len(cs.order))]
		prev := cs.live[key]
		o = op{Verb: verb, Kind: key.k, NS: key.ns, Name: key.name, TS: prev.TS}
		if verb == "update" {
			o.Spec = genSpec(r, key.k, key.ns)
		} else {
			o.Spec = prev.Spec
		}
	case "delete":
		idx := r.Intn(len(cs.order))
		key = cs.order[idx]
		o = op{Verb: verb, Kind: key.k, NS: key.ns, Name: key.name}
		delete(cs.live, key)
		cs.order = append(cs.order[:idx], cs.order[idx+1:]...)
	}
	if o.Verb != "delete" {
		sch, _ := collections.PilotGatewayAPI().FindByGroupVersionKind(o.Kind)
		if _, err := sch.ValidateConfig(toConfig(o)); err != nil {
			return op{}, false
		}
		cs.live[key] = o
		if isNew {
			cs.order = append(cs.order, key)
		}
	}
	return o, true
}

// genKHistory draws the initial cluster and a history of n logical steps (cluster steps and config
// operations mixed in the same batches).
// settled[i] says whether the simulated EndpointSlice controller has caught up at the end of batch i: the
// fresh-control-plane comparison is only made at such points (a slice that still lists a deleted or
// de-selected pod is a state Kubernetes itself has not finished converging from); the last batch always is.
func genKHistory(r *rand.Rand, n int) (initial []kruntime.Object, batches [][]op, settled []bool) {
	saved := hostPool
	hostPool = hostPoolK
	defer func() { hostPool = saved }()
	g := newKgen(r)
	initial = g.initial()
	cs := &cfgStepper{live: map[objKey]op{}}
	var cur []op
	flush := func() {
		if len(cur) > 0 {
			batches = append(batches, cur)
			settled = append(settled, len(g.dirty) == 0)
			cur = nil
		}
	}
	for i := 0; i < n; i++ {
		if r.Intn(20) < 9 {
			if o, ok := cs.step(r, i); ok {
				cur = append(cur, o)
			}
		} else {
			cur = append(cur, g.step()...)
		}
		if r.Intn(3) == 0 {
			flush()
		}
	}
	flush()
	if len(g.dirty) > 0 {
		cur = g.syncDirty()
		if len(cur) > 0 {
			flush()
		} else if len(settled) > 0 {
			settled[len(settled)-1] = true
		}
	}
	return initial, batches, settled
}
