package main

// zworld.go: stratum Z (ambient). The control plane runs with features.EnableAmbient; the clients are
// ztunnel models (internal/ztunnelclient): a wildcard subscriber and an on-demand subscriber whose
// subscriptions the PRNG changes mid-history. The world is the cluster of stratum K (pods, services,
// slices, namespaces) plus what makes it ambient (namespace dataplane mode, the CNI's redirection
// annotation on pods) and the four config kinds ztunnel resources are derived from (PeerAuthentication,
// AuthorizationPolicy, WorkloadEntry, ServiceEntry), each written to BOTH the config store and the fake
// Kubernetes API server's CRD clients, as crdclient does in production.

import (
	"fmt"
	"math/rand"
	"net/netip"
	"sort"
	"strings"
	"time"

	"google.golang.org/protobuf/proto"
	metav1 "k8s.io/apimachinery/pkg/apis/meta/v1"
	kruntime "k8s.io/apimachinery/pkg/runtime"

	networking "istio.io/api/networking/v1alpha3"
	securitybeta "istio.io/api/security/v1beta1"
	clientnetworking "istio.io/client-go/pkg/apis/networking/v1"
	clientsecurity "istio.io/client-go/pkg/apis/security/v1"
	"istio.io/istio/pilot/pkg/features"
	"istio.io/istio/pkg/config"
	"istio.io/istio/pkg/config/schema/gvk"
	"istio.io/istio/pkg/workloadapi"
	"istio.io/istio/pkg/workloadapi/security"
	"verifharness/internal/vh"
	"verifharness/internal/xdsshim"
	"verifharness/internal/ztunnelclient"
)

// zop is a step of the on-demand ztunnel itself.
type zop struct {
	Sub bool // subscribe (true) or unsubscribe
	Key string
}

// withAmbient switches the control-plane feature on for the duration of a case (servers are created and
// torn down inside it; cases run sequentially in a child).
func withAmbient() (restore func()) {
	saved := features.EnableAmbient
	features.EnableAmbient = true
	return func() { features.EnableAmbient = saved }
}

var stratumZ = &stratum{id: "z", sw: "z", histCase: "zhist", reconCase: "zreconnect", nHist: [2]int{10, 80}, nRecon: [2]int{4, 40}, proxies: nil}

func init() { strata = append(strata, stratumZ) }

var zKinds = []config.GroupVersionKind{gvk.PeerAuthentication, gvk.AuthorizationPolicy, gvk.AuthorizationPolicy, gvk.WorkloadEntry, gvk.ServiceEntry, gvk.ServiceEntry}

// crOf renders a config-store operation as the custom resource crdclient would have read it from.
func crOf(g *kgen, o op) op {
	kind := o.Kind.Kind
	if o.Verb == "delete" {
		return g.emit("delete", kind, nil, o.NS, o.Name, "cr")
	}
	g.rv++
	meta := metav1.ObjectMeta{Name: o.Name, Namespace: o.NS, CreationTimestamp: metav1.Unix(o.TS, 0), ResourceVersion: fmt.Sprint(g.rv)}
	var obj kruntime.Object
	switch spec := o.Spec.(type) {
	case *securitybeta.PeerAuthentication:
		obj = &clientsecurity.PeerAuthentication{ObjectMeta: meta, Spec: *proto.Clone(spec).(*securitybeta.PeerAuthentication)} //nolint: govet
	case *securitybeta.AuthorizationPolicy:
		obj = &clientsecurity.AuthorizationPolicy{ObjectMeta: meta, Spec: *proto.Clone(spec).(*securitybeta.AuthorizationPolicy)} //nolint: govet
	case *networking.ServiceEntry:
		obj = &clientnetworking.ServiceEntry{ObjectMeta: meta, Spec: *proto.Clone(spec).(*networking.ServiceEntry)} //nolint: govet
	case *networking.WorkloadEntry:
		obj = &clientnetworking.WorkloadEntry{ObjectMeta: meta, Spec: *proto.Clone(spec).(*networking.WorkloadEntry)} //nolint: govet
	default:
		panic(fmt.Sprintf("no custom resource for %T", o.Spec))
	}
	verb := o.Verb
	if verb == "noop-update" {
		verb = "update"
	}
	return g.emit(verb, kind, obj, o.NS, o.Name, "cr "+o.Verb)
}

// genZHistory draws the initial cluster and a history of n logical steps: cluster steps (incl. ambient
// enrolment), config operations mirrored into custom resources, and (un)subscriptions of the on-demand ztunnel.
func genZHistory(r *rand.Rand, n int) (initial []kruntime.Object, batches [][]op, settled []bool) {
	saved := hostPool
	hostPool = hostPoolK
	defer func() { hostPool = saved }()
	g := newKgen(r)
	g.ambient = true
	// ns1 is ambient from the start
	initial = g.initial()
	g.nss["ns1"].Labels[dataplaneMode] = "ambient"
	for i, o := range initial {
		if kind, _, name := kIdent(o); kind == "Namespace" {
			initial[i] = g.nss[name].DeepCopy()
		}
	}
	cs := &cfgStepper{live: map[objKey]op{}, kinds: zKinds}
	subs := map[string]bool{}
	var cur []op
	flush := func() {
		if len(cur) > 0 {
			batches = append(batches, cur)
			settled = append(settled, len(g.dirty) == 0)
			cur = nil
		}
	}
	for i := 0; i < n; i++ {
		switch x := r.Intn(20); {
		case x < 6:
			if o, ok := cs.step(r, i); ok {
				// store first or custom resource first
				if r.Intn(2) == 0 {
					cur = append(cur, o, crOf(g, o))
				} else {
					cur = append(cur, crOf(g, o), o)
				}
			}
		case x < 9:
			cur = append(cur, g.stepAmbient()...)
		case x < 12:
			cur = append(cur, g.stepSubscription(subs)...)
		default:
			cur = append(cur, g.step()...)
		}
		if r.Intn(3) == 0 {
			flush()
		}
	}
	flush()
	if len(g.dirty) > 0 {
		cur = g.syncDirty()
		if len(cur) > 0 {
			flush()
		} else if len(settled) > 0 {
			settled[len(settled)-1] = true
		}
	}
	return initial, batches, settled
}

const zCluster = "Kubernetes"

func podUID(ns, name string) string { return zCluster + "//Pod/" + ns + "/" + name }

// stepSubscription makes the on-demand ztunnel subscribe to or drop an Address name: a workload UID, a
// "network/ip" key (the default network is empty) or a service "namespace/hostname" key; names that do not
// exist (yet) are drawn too.
func (g *kgen) stepSubscription(subs map[string]bool) []op {
	r := g.r
	if len(subs) > 0 && r.Intn(3) == 0 {
		k := pick(r, sortedKeysOf(subs))
		delete(subs, k)
		return []op{{Verb: "zunsubscribe", Kind: config.GroupVersionKind{Kind: "ztunnel.Subscription"}, Name: k, Z: &zop{Sub: false, Key: k}}}
	}
	var key string
	pods, svcs := sortedKeysOf(g.pods), sortedKeysOf(g.svcs)
	switch x := r.Intn(10); {
	case x < 3 && len(pods) > 0:
		p := g.pods[pick(r, pods)]
		key = podUID(p.Namespace, p.Name)
	case x < 5 && len(pods) > 0:
		p := g.pods[pick(r, pods)]
		if p.Status.PodIP == "" {
			return nil
		}
		key = "/" + p.Status.PodIP
	case x < 7 && len(svcs) > 0:
		s := g.svcs[pick(r, svcs)]
		key = s.Namespace + "/" + s.Name + "." + s.Namespace + ".svc.cluster.local"
	case x < 8 && len(svcs) > 0:
		s := g.svcs[pick(r, svcs)]
		if s.Spec.ClusterIP == "" || s.Spec.ClusterIP == "None" {
			return nil
		}
		key = "/" + s.Spec.ClusterIP
	case x < 9:
		// a pod that may not exist (yet)
		key = podUID(pick(r, namespaces), fmt.Sprintf("p%d", r.Intn(5)))
	default:
		// an address nobody may have (yet)
		key = fmt.Sprintf("/10.40.0.%d", 1+r.Intn(12))
	}
	if subs[key] {
		return nil
	}
	subs[key] = true
	return []op{{Verb: "zsubscribe", Kind: config.GroupVersionKind{Kind: "ztunnel.Subscription"}, Name: key, Z: &zop{Sub: true, Key: key}}}
}

// ---------------------------------------------------------------------------------------
// clients

func newZtunnel(name, ip, node string, onDemand bool, suffix string) *ztunnelclient.Client {
	n := xdsshim.Node("ztunnel", ip, name, "istio-system", map[string]any{"CLUSTER_ID": zCluster, "NODE_NAME": node, "ISTIO_VERSION": "1.28.0"})
	return ztunnelclient.New(name+suffix, n, onDemand)
}

type zstate = map[string]map[string]ztunnelclient.Held

// zfresh connects a fresh wildcard ztunnel to server s and returns what it holds once quiescent.
func zfresh(s *server, also ...*server) (zstate, bool) {
	n0 := len(s.srv.Discovery.AllClients())
	cl := newZtunnel("ztunnel-fresh", "10.60.0.9", "node-3", false, "")
	cl.Connect(s.srv.Discovery, ztunnelclient.Fault{})
	ok := quiesce(append([]*server{s}, also...)...)
	if done, err, pan := cl.StreamErr(); done {
		fmt.Printf("FRESH-STREAM-ENDED %s err=%v panic=%s\n", cl.Name, err, firstLine(pan))
		ok = false
	}
	if resp, _ := cl.ResponsesOnStream(); resp[ztunnelclient.AddressType] == 0 || resp[ztunnelclient.AuthorizationType] == 0 {
		// never answered: the quiescence detector returned early
		fmt.Printf("FRESH-ZTUNNEL-EMPTY %s responses=%v\n", cl.Name, resp)
		ok = false
	}
	st := cl.Snapshot()
	cl.Disconnect(false)
	return st, s.quiesceGone(n0, also...) && ok
}

// zfreshB builds a control plane from the final objects, connects a fresh wildcard ztunnel and tears it down.
func (w *world) zfreshB(s *server) (zstate, bool) {
	b := newServerK(s.snapshot(), w.kube.list(), 2*time.Millisecond)
	defer b.f.Done()
	return zfresh(b, s)
}

// ---------------------------------------------------------------------------------------
// comparison

func zmsg(t string, a ztunnelclient.Held) proto.Message {
	var m proto.Message
	switch t {
	case ztunnelclient.AddressType:
		m = &workloadapi.Address{}
	default:
		m = &security.Authorization{}
	}
	if a.Resource == nil || proto.Unmarshal(a.Resource.Value, m) != nil {
		return nil
	}
	return m
}

func zequal(t string, a, b ztunnelclient.Held) bool {
	ma, mb := zmsg(t, a), zmsg(t, b)
	if ma == nil || mb == nil {
		return false
	}
	return proto.Equal(ma, mb)
}

// zkind names what a resource is (for keys).
func zkind(t, name string, h ztunnelclient.Held) string {
	if t == ztunnelclient.AuthorizationType {
		return "policy"
	}
	switch {
	case strings.Contains(name, "//Pod/"):
		return "pod"
	case strings.Contains(name, "/WorkloadEntry/"):
		return "workloadentry"
	case strings.Contains(name, "/ServiceEntry/"):
		return "serviceentry-endpoint"
	}
	if m, ok := zmsg(t, h).(*workloadapi.Address); ok && m != nil {
		if m.GetService() != nil {
			return "service"
		}
		return "workload"
	}
	if strings.Count(name, "/") == 1 {
		return "service"
	}
	return "other"
}

type zdiff struct {
	Type, Name, What, Kind string
}

func (d zdiff) String() string { return ztunnelclient.Short(d.Type) + " " + d.Name + ": " + d.What }

// zcompare: differences between what a long-lived wildcard client holds and the reference state.
func zcompare(held, ref zstate) []zdiff {
	var out []zdiff
	for _, t := range ztunnelclient.Types {
		names := map[string]bool{}
		for n := range held[t] {
			names[n] = true
		}
		for n := range ref[t] {
			names[n] = true
		}
		for _, n := range sortedKeysOf(names) {
			a, oka := held[t][n]
			b, okb := ref[t][n]
			switch {
			case !oka:
				out = append(out, zdiff{t, n, "missing", zkind(t, n, b)})
			case !okb:
				out = append(out, zdiff{t, n, "extra", zkind(t, n, a)})
			case !zequal(t, a, b):
				out = append(out, zdiff{t, n, "content", zkind(t, n, a)})
			}
		}
	}
	return out
}

// zprimary: the Address resources a subscribed name itself stands for in a state, by CONTENT, in the documented lookup
// order: a workload UID; the workloads that have the network/ip address; else the service with that namespace/hostname
// or network/ip address. The second result is the service's resource name when the name stands for a service.
func zprimary(st zstate, key string) (names []string, service string) {
	addrs := st[ztunnelclient.AddressType]
	if h, ok := addrs[key]; ok {
		if m, _ := zmsg(ztunnelclient.AddressType, h).(*workloadapi.Address); m != nil && m.GetWorkload() != nil {
			return []string{key}, ""
		}
	}
	ipKey := func(network string, b []byte) string {
		ip, ok := netip.AddrFromSlice(b)
		if !ok {
			return ""
		}
		return network + "/" + ip.String()
	}
	var byIP []string
	for _, n := range sortedKeysOf(addrs) {
		m, _ := zmsg(ztunnelclient.AddressType, addrs[n]).(*workloadapi.Address)
		if m == nil {
			continue
		}
		if wl := m.GetWorkload(); wl != nil {
			for _, a := range wl.Addresses {
				if ipKey(wl.Network, a) == key {
					byIP = append(byIP, n)
				}
			}
		}
		if svc := m.GetService(); svc != nil {
			if svc.Namespace+"/"+svc.Hostname == key {
				service = n
			}
			for _, a := range svc.Addresses {
				if service == "" && ipKey(a.Network, a.Address) == key {
					service = n
				}
			}
		}
	}
	if len(byIP) > 0 {
		return byIP, ""
	}
	if service == "" {
		return nil, ""
	}
	return []string{service}, service
}

// zmembers: the workloads of a state that list the service.
func zmembers(st zstate, service string) []string {
	var out []string
	addrs := st[ztunnelclient.AddressType]
	for _, n := range sortedKeysOf(addrs) {
		m, _ := zmsg(ztunnelclient.AddressType, addrs[n]).(*workloadapi.Address)
		if m == nil || m.GetWorkload() == nil {
			continue
		}
		if _, ok := m.GetWorkload().Services[service]; ok {
			out = append(out, n)
		}
	}
	return out
}

// zcompareOnDemand: for every name the on-demand client is subscribed to, what the name itself stands for in the
// reference state must be held and equal, and a name the reference does not resolve must not resolve in the client's
// own state either. A service brings workloads with it: the ones the client was SENT (the server subscribes the
// connection to them) must be kept in step — equal to the reference, or gone if they ceased to exist; workloads that
// joined the service later need not be there (TestWorkload/ondemand pins that they are not pushed).
func zcompareOnDemand(cl *ztunnelclient.Client, ref zstate) []zdiff {
	held := cl.Snapshot()
	var out []zdiff
	t := ztunnelclient.AddressType
	for _, k := range cl.Subscriptions() {
		sk := "(subscribed=" + subKind(k) + ")"
		if cl.SubscribedWhileHeld(k) {
			// finding Z-F4: the server had sent the resource of this very name unasked before and tracks it for the connection;
			// the explicit subscription then "changes nothing" in its books and is not answered
			sk = "(subscribed=" + subKind(k) + ",name-already-force-subscribed)"
		}
		want, svc := zprimary(ref, k)
		if len(want) == 0 {
			got, _ := zprimary(held, k)
			for _, n := range got {
				out = append(out, zdiff{t, n, "extra", zkind(t, n, held[t][n]) + sk})
			}
			continue
		}
		for _, n := range want {
			h, ok := held[t][n]
			switch {
			case !ok:
				out = append(out, zdiff{t, n, "missing", zkind(t, n, ref[t][n]) + sk})
			case !zequal(t, h, ref[t][n]):
				out = append(out, zdiff{t, n, "content", zkind(t, n, h) + sk})
			}
		}
		if svc == "" {
			continue
		}
		for _, n := range zmembers(held, svc) {
			if cl.Dropped(n) {
				// the client itself unsubscribed this member by name while the service subscription went on; which of the two
				// wins is not documented, so nothing is required of it until it is subscribed again
				continue
			}
			r, ok := ref[t][n]
			switch {
			case !ok:
				out = append(out, zdiff{t, n, "extra", zkind(t, n, held[t][n]) + "(member-of-service," + sk[1:]})
			case !zequal(t, held[t][n], r):
				out = append(out, zdiff{t, n, "content", zkind(t, n, held[t][n]) + "(member-of-service," + sk[1:]})
			}
		}
	}
	// Authorization is a wildcard subscription for every ztunnel
	for _, d := range zcompare(zstate{ztunnelclient.AuthorizationType: held[ztunnelclient.AuthorizationType]}, zstate{ztunnelclient.AuthorizationType: ref[ztunnelclient.AuthorizationType]}) {
		out = append(out, d)
	}
	sort.Slice(out, func(i, j int) bool { return out[i].String() < out[j].String() })
	// one entry per (name, what)
	var dedup []zdiff
	for i, d := range out {
		if i == 0 || d.String() != out[i-1].String() {
			dedup = append(dedup, d)
		}
	}
	return dedup
}

func subKind(k string) string {
	switch {
	case strings.Contains(k, "//"):
		return "uid"
	case strings.HasPrefix(k, "/"):
		return "ip"
	}
	return "service"
}

func ztext(t string, h ztunnelclient.Held) string {
	m := zmsg(t, h)
	if m == nil {
		return "<absent>"
	}
	s := fmt.Sprint(m)
	if len(s) > 1500 {
		s = s[:1500] + "…"
	}
	return s
}

// ---------------------------------------------------------------------------------------
// world

type zclients struct {
	wild, od *ztunnelclient.Client
	moreOD   []*ztunnelclient.Client // C05: on-demand scenario clients follow the same subscription steps
}

func (w *world) zconnect() {
	w.z = &zclients{
		wild: newZtunnel("ztunnel-w", "10.60.0.1", "node-1", false, ""),
		od:   newZtunnel("ztunnel-od", "10.60.0.2", "node-2", true, ""),
	}
	w.z.wild.Connect(w.a.srv.Discovery, ztunnelclient.Fault{})
	w.z.od.Connect(w.a.srv.Discovery, ztunnelclient.Fault{})
}

func (w *world) zclose() {
	if w.z != nil {
		w.z.wild.Disconnect(false)
		w.z.od.Disconnect(false)
	}
}

// zannounced says whether the push log of the wildcard ztunnel saw the Address name among the addresses updated.
func (s *server) zannounced(proxyID, name string) string {
	s.pushes.mu.Lock()
	defer s.pushes.mu.Unlock()
	for _, e := range s.pushes.by[proxyID] {
		for _, a := range e.addrs {
			if a == name {
				return "address-announced"
			}
		}
	}
	return "address-never-announced"
}

// zcheck evaluates one long-lived ztunnel against a reference state and reports violations.
// how: "same-server" (C03 oracle) or "fresh-control-plane" (C01 oracle); fallback, when how is the latter, is the
// same-server state used to tell an accumulated-delta defect from a history-dependent index.
// zdiffsOf: the differences of a client against a reference, by the oracle of its subscription mode.
func zdiffsOf(cl *ztunnelclient.Client, ref zstate) []zdiff {
	if cl.OnDemand {
		return zcompareOnDemand(cl, ref)
	}
	return zcompare(cl.Snapshot(), ref)
}

// zpair is one comparison an oracle is about to make.
type zpair struct {
	tag string
	cl  *ztunnelclient.Client
	ref *zstate // the reference is re-taken by the persistence re-check, so it is read through the pointer
}

// zpersist is the persistence re-check of the ztunnel oracles (see regrace): if any of the comparisons finds a difference,
// quiesce / grace window / quiesce with no input, re-take the references and report what went away. The oracles then
// run on the re-taken references.
func (w *world) zpersist(oracle string, s *server, retake func() bool, pairs func() []zpair) bool {
	set := func() map[string]bool {
		out := map[string]bool{}
		for _, p := range pairs() {
			if *p.ref == nil {
				continue
			}
			for _, d := range zdiffsOf(p.cl, *p.ref) {
				out[p.tag+" "+p.cl.Name+" "+d.String()] = true
			}
		}
		return out
	}
	first := set()
	if len(first) == 0 {
		return true
	}
	if !regrace(s) {
		w.c.Inconclusive("persistence re-check did not quiesce")
		return false
	}
	if !retake() {
		return false
	}
	second := set()
	gone := 0
	for k := range first {
		if !second[k] {
			gone++
		}
	}
	if gone > 0 {
		w.premature(oracle, gone)
	}
	return true
}

func (w *world) zcheck(prefix, how string, cl *ztunnelclient.Client, ref, sameServer zstate, info string) (compared int) {
	c := w.c
	diffs := zdiffsOf(cl, ref)
	held := cl.Snapshot()
	for _, m := range held {
		compared += len(m)
	}
	mode := "wildcard"
	if cl.OnDemand {
		mode = "ondemand"
	}
	for _, d := range diffs {
		class := how
		if how == "fresh-control-plane" && sameServer != nil {
			// does a fresh client on the SAME server agree with the long-lived one?
			a, oka := held[d.Type][d.Name]
			b, okb := sameServer[d.Type][d.Name]
			if oka == okb && (!oka || zequal(d.Type, a, b)) {
				class = "index-history-dependent"
			} else {
				class = "accumulated-delta-state"
			}
		} else if how == "same-server" {
			class = "accumulated-delta-state"
		}
		cause := "n/a"
		if d.Type == ztunnelclient.AddressType {
			cause = w.a.zannounced("ztunnel-w.istio-system", d.Name)
			switch {
			case cl.OnDemand && d.What == "missing" && cl.RemovedByEmptyResponse(d.Name):
				// finding Z-F1: the answer to a request that resolves to nothing (e.g. a pure unsubscribe) lists everything the
				// connection watches as removed. The client saw that removal itself, so this evidence goes before any shape.
				cause = "removed-by-response-without-resources"
			case w.zsquatted(d, held, ref):
				cause = "hostname-served-by-serviceentry-and-kubernetes-in-one-namespace"
			case cl.OnDemand && d.What != "extra" && strings.Contains(d.Kind, "(subscribed=ip"):
				// finding Z-F3: a subscription by network/ip is only evaluated when it is requested; a workload or service that
				// takes the address later is announced under its own name, which the connection is not subscribed to
				cause = "subscribed-by-address:" + cause
			}
		}
		// the root cause comes before the volatile detail, so that a family can be named by prefix
		key := fmt.Sprintf("%s:%s:cause=%s:client=%s:%s:%s:%s", prefix, class, cause, mode, ztunnelclient.Short(d.Type), d.Kind, d.What)
		c.Violation(key,
			fmt.Sprintf("%s ztunnel %s (%s): %s vs %s. %s. held: %s | reference: %s", prefix, cl.Name, mode, d, how, info, ztext(d.Type, held[d.Type][d.Name]), ztext(d.Type, ref[d.Type][d.Name])),
			map[string]any{"client": cl.Name, "resource": d.String(), "history": histText(w.hist, w.applied), "context": info, "subscriptions": cl.Subscriptions(),
				"pushlog": w.a.pushes.tail("ztunnel-w.istio-system", 10)})
	}
	return compared
}

// zsquatted: the resource is, or belongs to, a service whose hostname a live ServiceEntry defines in the namespace of the
// Kubernetes Service of that name (shape S1: two services under one namespace/hostname key).
func (w *world) zsquatted(d zdiff, held, ref zstate) bool {
	for _, st := range []zstate{held, ref} {
		h, ok := st[d.Type][d.Name]
		if !ok {
			continue
		}
		m, _ := zmsg(d.Type, h).(*workloadapi.Address)
		if m == nil {
			continue
		}
		if svc := m.GetService(); svc != nil && w.hostSquatted(svc.Hostname) {
			return true
		}
		if wl := m.GetWorkload(); wl != nil {
			for k := range wl.Services {
				if i := strings.IndexByte(k, '/'); i >= 0 && w.hostSquatted(k[i+1:]) {
					return true
				}
			}
		}
	}
	return false
}

func zstateHash(st zstate) string {
	var parts []string
	for _, t := range ztunnelclient.Types {
		for _, n := range sortedKeysOf(st[t]) {
			parts = append(parts, t, n, st[t][n].Version, fmt.Sprint(len(st[t][n].Resource.GetValue())))
		}
	}
	return vh.Hash(parts)
}

// ---------------------------------------------------------------------------------------
// C01 / C03 driver for stratum Z

func zhistoryCase(c *vh.Ctx, st *stratum, i int, c01, c03 bool) {
	defer withAmbient()()
	r := c.Rng("zhist", i)
	nops := 30 + r.Intn(c.N(30, 60))
	kinit, hist, settled := genZHistory(r, nops)
	zrunHistory(c, fmt.Sprintf("zhist/%d", i), i < 2, time.Duration(1+r.Intn(5))*time.Millisecond, kinit, hist, settled, c01, c03)
}

// zrunHistory drives one history (generated or scripted) through a control plane with a wildcard and an on-demand ztunnel
// and applies the C01 and/or C03 oracle after the batches.
func zrunHistory(c *vh.Ctx, label string, sample bool, debounce time.Duration, kinit []kruntime.Object, hist [][]op, settled []bool, c01, c03 bool) {
	w := newWorldK(c, debounce, "z", kinit)
	defer w.close()
	w.hist = hist
	w.caseName = label
	w.zconnect()
	defer w.zclose()
	propKey := strings.ToLower(c.Prop.ID)
	if !quiesce(w.a) {
		c.Inconclusive("initial sync did not quiesce")
		return
	}
	prev := zstateHash(w.z.wild.Snapshot())
	prevRemovals := 0
	changedAny := false
	nCheckpoints := 0
	for bi, b := range hist {
		w.applyBatch(w.a, b)
		w.applied = bi + 1
		if !quiesce(w.a) {
			c.Inconclusive(fmt.Sprintf("batch %d did not quiesce", bi))
			return
		}
		if validateIdle && !w.stableAfterIdle() {
			c.Violation(w.pfx(propKey)+":harness:quiescence-detector-returned-early", fmt.Sprintf("after batch %d the process was declared idle but something still changed afterwards", bi), map[string]any{"history": histText(hist, bi+1)})
			return
		}
		c.Count("batches", 1)
		c.Count("ops", len(b))
		c.SetAdd("batch_sizes", fmt.Sprint(len(b)))
		for _, o := range b {
			c.SetAdd("op_kinds", o.Verb+" "+o.Kind.Kind)
			switch {
			case o.K != nil:
				c.Count("kube_ops:"+o.Verb+"_"+o.K.Kind, 1)
				c.Count("z_kube_ops", 1)
			case o.Z != nil:
				c.Count("z_subscription_ops", 1)
			default:
				c.Count("z_config_ops", 1)
			}
		}
		for _, cl := range []*ztunnelclient.Client{w.z.wild, w.z.od} {
			if done, err, pan := cl.StreamErr(); done {
				if pan != "" {
					c.Violation(w.pfx(propKey)+":stream-handler-panic:"+vh.TopIstioFrame(pan), fmt.Sprintf("server stream handler of %s panicked: %s", cl.Name, firstLine(pan)), map[string]any{"history": histText(hist, bi+1)})
				} else {
					c.Inconclusive(fmt.Sprintf("stream of %s ended: %v", cl.Name, err))
				}
				return
			}
			for _, v := range cl.ViolationsCopy() {
				c.Violation(w.pfx(propKey)+":delta-protocol-sanity", cl.Name+": "+v, map[string]any{"history": histText(hist, bi+1)})
			}
		}
		cur := zstateHash(w.z.wild.Snapshot())
		changed := cur != prev
		if changed {
			changedAny = true
		}
		prev = cur
		info := fmt.Sprintf("after batch %d of %s", bi, label)
		var same, fb zstate
		takeRefs := func() bool {
			if c03 || (c01 && settled[bi]) {
				var ok bool
				if same, ok = zfresh(w.a); !ok {
					c.Inconclusive("fresh ztunnel on the same server did not quiesce")
					return false
				}
			}
			if c01 && settled[bi] {
				var ok bool
				if fb, ok = w.zfreshB(w.a); !ok {
					c.Inconclusive("fresh control plane did not quiesce")
					return false
				}
			}
			return true
		}
		if !takeRefs() {
			return
		}
		if !w.zpersist(propKey+":z", w.a, takeRefs, func() []zpair {
			var ps []zpair
			if c03 {
				ps = append(ps, zpair{"same-server", w.z.wild, &same}, zpair{"same-server", w.z.od, &same})
			}
			return append(ps, zpair{"fresh-control-plane", w.z.wild, &fb}, zpair{"fresh-control-plane", w.z.od, &fb})
		}) {
			return
		}
		if c03 {
			n := w.zcheck("c03:z", "same-server", w.z.wild, same, nil, info)
			n += w.zcheck("c03:z", "same-server", w.z.od, same, nil, info)
			c.Count("resources_compared", n)
			c.Count("z_same_server_comparisons", 1)
		}
		if c01 && settled[bi] {
			// instance nondeterminism: a second fresh control plane decides for resources that differ
			diffsW := zcompare(w.z.wild.Snapshot(), fb)
			diffsO := zcompareOnDemand(w.z.od, fb)
			if len(diffsW)+len(diffsO) > 0 {
				fb2, ok2 := w.zfreshB(w.a)
				if !ok2 {
					c.Inconclusive("second fresh control plane did not quiesce")
					return
				}
				for _, d := range zcompare(fb, fb2) {
					// excluded: two fresh control planes disagree about it
					c.Count("excluded_instance_nondeterministic", 1)
					c.SetAdd("excluded_instance_nondeterministic_detail", d.String())
					for _, t := range ztunnelclient.Types {
						if t == d.Type {
							// align both references on the long-lived client's copy so that it cannot be reported
							if h, ok := w.z.wild.Snapshot()[t][d.Name]; ok {
								fb[t][d.Name] = h
							} else {
								delete(fb[t], d.Name)
							}
						}
					}
				}
			}
			n := w.zcheck("c01:z", "fresh-control-plane", w.z.wild, fb, same, info)
			n += w.zcheck("c01:z", "fresh-control-plane", w.z.od, fb, same, info)
			c.Count("resources_compared", n)
			c.Count("checkpoints", 1)
			c.Count("z_checkpoints", 1)
			if nCheckpoints++; nCheckpoints > 1 {
				c.AddEvaluations(1)
			}
			rem := w.z.wild.StatsCopy()["responses_with_removals_WDS"] + w.z.wild.StatsCopy()["responses_with_removals_WAUTH"]
			if changed && (rem > prevRemovals || w.z.wild.StatsCopy()["responses_WDS"] > 1) {
				c.Nontrivial("z" + histHash(hist) + fmt.Sprint(bi))
				c.Count("z_nontrivial", 1)
			}
			prevRemovals = rem
		}
	}
	zevidence(c, w.z.wild, w.z.od)
	c.Count("histories", 1)
	c.Count("z_histories", 1)
	if c03 {
		ws := w.z.wild.StatsCopy()
		if changedAny && ws["responses_with_removals_WDS"]+ws["responses_with_removals_WAUTH"] > 0 {
			c.Nontrivial("z" + histHash(hist))
			c.Count("z_nontrivial", 1)
		}
	}
	if sample {
		c.Sample(map[string]any{"stratum": "z", "history": histText(hist, len(hist)), "clients": 2})
	}
}

func zevidence(c *vh.Ctx, cls ...*ztunnelclient.Client) {
	for _, cl := range cls {
		st := cl.StatsCopy()
		mode := "wildcard"
		if cl.OnDemand {
			mode = "ondemand"
		}
		for _, k := range []string{"responses_WDS", "responses_WAUTH", "responses_with_removals_WDS", "responses_with_removals_WAUTH", "removed_names_WDS", "removed_names_WAUTH",
			"removed_held_WDS", "removed_held_WAUTH", "resources_received_WDS", "resources_received_WAUTH", "reconnects_with_initial_resource_versions",
			"ondemand_subscribe_requests", "ondemand_unsubscribe_requests", "ondemand_names_subscribed", "cuts_injected", "send_failures_injected"} {
			if st[k] > 0 {
				c.Count("z_"+mode+"_"+k, st[k])
			}
		}
		for t, m := range cl.Snapshot() {
			c.Max("z_held_"+ztunnelclient.Short(t)+"_"+mode, len(m))
		}
	}
}

// ---------------------------------------------------------------------------------------
// C05 driver for stratum Z

type zscenario struct {
	Kind     string // init-cut | send-fail | boundary
	N        int
	Ack      bool
	Orderly  bool
	OnDemand bool
	Start    int
	Away     int

	cl        *ztunnelclient.Client
	away      bool
	awayTill  int
	armed     bool
	missed    int
	heldAtCut int
}

func (s *zscenario) mode() string {
	if s.OnDemand {
		return "ondemand"
	}
	return "wildcard"
}

func (s *zscenario) key() string { return s.Kind + ":" + s.mode() }

func (s *zscenario) String() string {
	return fmt.Sprintf("%s(n=%d,ack=%v,orderly=%v,%s,start=%d,away=%d)", s.Kind, s.N, s.Ack, s.Orderly, s.mode(), s.Start, s.Away)
}

func zenumerate(nb, salt int) []*zscenario {
	var out []*zscenario
	k := salt
	mid := nb / 2
	for _, od := range []bool{false, true} {
		for n := 1; n <= 4; n++ {
			for _, ack := range []bool{true, false} {
				k++
				out = append(out, &zscenario{Kind: "init-cut", N: n, Ack: ack, OnDemand: od, Start: (mid + n + k) % nb, Away: k % 3})
			}
		}
		for n := 1; n <= 3; n++ {
			k++
			out = append(out, &zscenario{Kind: "send-fail", N: n, OnDemand: od, Start: (mid + n + k + 1) % nb, Away: k % 2})
		}
		for j := 0; j < nb; j++ {
			k++
			out = append(out, &zscenario{Kind: "boundary", OnDemand: od, Start: j, Away: 1 + (j+k)%3, Orderly: j%2 == 0})
		}
	}
	return out
}

func zheld(cl *ztunnelclient.Client) int {
	n := 0
	for _, m := range cl.Snapshot() {
		n += len(m)
	}
	return n
}

func zreconnectCase(c *vh.Ctx, st *stratum, i int) {
	defer withAmbient()()
	r := c.Rng("zreconnect", i)
	kinit, hist, _ := genZHistory(r, 24+r.Intn(c.N(24, 50)))
	debounce := time.Duration(1+r.Intn(4)) * time.Millisecond
	w := newWorldK(c, debounce, "z", kinit)
	w.hist = hist
	w.caseName = fmt.Sprintf("zreconnect/%d", i)
	cur := w.a
	defer func() {
		if cur != w.a {
			cur.f.Done()
		}
		w.close()
	}()
	w.zconnect()
	defer w.zclose()
	if !quiesce(cur) {
		c.Inconclusive("initial sync did not quiesce")
		return
	}
	scens := zenumerate(len(hist), i)
	restartAt := -1
	if i%2 == 1 && len(hist) > 2 {
		restartAt = 1 + r.Intn(len(hist)-1)
	}
	ip := 0
	newScenClient := func(s *zscenario, suffix string) *ztunnelclient.Client {
		ip++
		cl := newZtunnel("ztunnel-"+s.mode(), fmt.Sprintf("10.60.1.%d", ip), pick(r, kNodes), s.OnDemand, "/"+suffix)
		if s.OnDemand {
			// joins with the subscriptions of the long-lived on-demand client
			cl.Subscribe(w.z.od.Subscriptions()...)
			w.z.moreOD = append(w.z.moreOD, cl)
		}
		return cl
	}
	for _, s := range scens {
		if s.Kind == "boundary" {
			s.cl = newScenClient(s, fmt.Sprintf("boundary%d", s.Start))
			s.cl.Connect(cur.srv.Discovery, ztunnelclient.Fault{})
		}
	}
	if !quiesce(cur) {
		c.Inconclusive("scenario clients did not quiesce")
		return
	}
	panicked := func(s *zscenario) bool {
		if _, _, pan := s.cl.StreamErr(); pan != "" {
			c.Violation("c05:z:stream-handler-panic:"+vh.TopIstioFrame(pan), fmt.Sprintf("server stream handler panicked in scenario %s: %s", s, firstLine(pan)), nil)
			return true
		}
		return false
	}
	for bi := 0; bi <= len(hist); bi++ {
		var started []*zscenario
		for _, s := range scens {
			if s.Start != bi || bi == len(hist) {
				continue
			}
			switch s.Kind {
			case "init-cut":
				s.cl = newScenClient(s, fmt.Sprintf("init-cut%d-%v", s.N, s.Ack))
				s.cl.Connect(cur.srv.Discovery, ztunnelclient.Fault{CutAfterResponses: s.N, AckBeforeCut: s.Ack})
				started = append(started, s)
			case "send-fail":
				s.cl = newScenClient(s, fmt.Sprintf("send-fail%d", s.N))
				s.cl.Connect(cur.srv.Discovery, ztunnelclient.Fault{FailSendAt: s.N})
				started = append(started, s)
			case "boundary":
				s.heldAtCut = zheld(s.cl)
				s.cl.Disconnect(s.Orderly)
				s.away, s.awayTill = true, bi+s.Away
				c.Count("cuts_at_batch_boundary", 1)
			}
		}
		if len(started) > 0 {
			if !quiesce(cur) {
				c.Inconclusive("fault injection did not quiesce")
				return
			}
			for _, s := range started {
				if panicked(s) {
					return
				}
				if done, _, _ := s.cl.StreamErr(); !done && s.cl.Connected() {
					s.armed = true
					continue
				}
				s.heldAtCut = zheld(s.cl)
				s.cl.Disconnect(false)
				s.away, s.awayTill = true, bi+s.Away
				c.Count("cuts_"+s.Kind, 1)
			}
		}
		for _, s := range scens {
			if !s.armed || s.cl == nil || s.away {
				continue
			}
			if panicked(s) {
				return
			}
			if done, _, _ := s.cl.StreamErr(); done || !s.cl.Connected() {
				s.armed = false
				s.heldAtCut = zheld(s.cl)
				s.cl.Disconnect(false)
				s.away, s.awayTill = true, bi+s.Away
				c.Count("cuts_"+s.Kind+"_mid_push", 1)
			}
		}
		if bi == restartAt {
			next := newServerK(cur.snapshot(), w.kube.list(), debounce)
			all := []*ztunnelclient.Client{w.z.wild, w.z.od}
			for _, s := range scens {
				if s.cl != nil && !s.away {
					all = append(all, s.cl)
				}
			}
			for k, cl := range all {
				cl.Disconnect(k%2 == 0)
			}
			for _, s := range scens {
				s.armed = false
			}
			old := cur
			cur = next
			for _, cl := range all {
				cl.Connect(cur.srv.Discovery, ztunnelclient.Fault{})
			}
			if old != w.a {
				old.f.Done()
			}
			c.Count("control_plane_restarts", 1)
			if !quiesce(cur) {
				c.Inconclusive("restart did not quiesce")
				return
			}
		}
		for _, s := range scens {
			if s.away && (s.awayTill <= bi || bi == len(hist)) {
				s.away = false
				s.cl.Connect(cur.srv.Discovery, ztunnelclient.Fault{})
				c.Count("reconnects", 1)
			}
		}
		if bi == len(hist) {
			break
		}
		w.applyBatch(cur, hist[bi])
		w.applied = bi + 1
		for _, s := range scens {
			if s.away {
				s.missed += len(hist[bi])
			}
		}
		if !quiesce(cur) {
			c.Inconclusive(fmt.Sprintf("batch %d did not quiesce", bi))
			return
		}
		c.Count("batches", 1)
		for _, o := range hist[bi] {
			switch {
			case o.K != nil:
				c.Count("kube_ops:"+o.Verb+"_"+o.K.Kind, 1)
				c.Count("z_kube_ops", 1)
			case o.Z != nil:
				c.Count("z_subscription_ops", 1)
			default:
				c.Count("z_config_ops", 1)
			}
		}
	}
	if !quiesce(cur) {
		c.Inconclusive("final reconnects did not quiesce")
		return
	}
	// oracle: every client, whatever it retained and missed, equals a fresh ztunnel on the same control plane;
	// the long-lived ones in addition equal a fresh ztunnel on a control plane built from the final objects
	saveA := w.a
	w.a = cur // zcheck reads the push log of the server the clients are connected to
	defer func() { w.a = saveA }()
	var same, fb zstate
	takeRefs := func() bool {
		var ok bool
		if same, ok = zfresh(cur); !ok {
			c.Inconclusive("fresh ztunnel did not quiesce")
			return false
		}
		if fb, ok = w.zfreshB(cur); !ok {
			c.Inconclusive("fresh control plane did not quiesce")
			return false
		}
		return true
	}
	if !takeRefs() {
		return
	}
	if !w.zpersist("c05:z", cur, takeRefs, func() []zpair {
		ps := []zpair{{"same-server", w.z.wild, &same}, {"same-server", w.z.od, &same}, {"fresh-control-plane", w.z.wild, &fb}, {"fresh-control-plane", w.z.od, &fb}}
		for _, s := range scens {
			if s.cl == nil {
				continue
			}
			if done, _, _ := s.cl.StreamErr(); !done {
				ps = append(ps, zpair{"same-server", s.cl, &same})
			}
		}
		return ps
	}) {
		return
	}
	nScen, ncmp := 0, 0
	for _, s := range scens {
		if s.cl == nil {
			continue
		}
		if done, err, pan := s.cl.StreamErr(); done {
			if pan != "" {
				c.Violation("c05:z:stream-handler-panic:"+vh.TopIstioFrame(pan), fmt.Sprintf("server stream handler panicked after reconnect in scenario %s: %s", s, firstLine(pan)), nil)
			} else if !s.armed {
				c.Violation("c05:z:reconnected-stream-ended:"+s.key(), fmt.Sprintf("scenario %s: the stream opened by the reconnect ended: %v", s, err), map[string]any{"history": histText(hist, len(hist))})
			}
			continue
		}
		if s.armed {
			c.Count("fault_point_never_reached", 1)
		}
		info := fmt.Sprintf("zreconnect/%d end of history, restartAt=%d, scenario %s, missed %d ops while away, held %d at the cut", i, restartAt, s, s.missed, s.heldAtCut)
		ncmp += w.zcheck("c05:z", "same-server", s.cl, same, nil, info)
		c.SetAdd("scenario_kinds", s.key())
		c.Count("scenarios", 1)
		c.Count("z_scenarios", 1)
		nScen++
		if s.missed > 0 && s.heldAtCut > 0 {
			c.Nontrivial("z" + vh.Hash(histHash(hist), s.String()))
			c.Count("scenarios_with_missed_changes", 1)
			c.Count("z_nontrivial", 1)
		}
		for _, v := range s.cl.ViolationsCopy() {
			c.Violation("c05:z:delta-protocol-sanity", s.cl.Name+": "+v, nil)
		}
		zevidence(c, s.cl)
	}
	if nScen > 1 {
		c.AddEvaluations(nScen - 1)
	}
	info := fmt.Sprintf("zreconnect/%d end of history, restartAt=%d (long-lived client)", i, restartAt)
	ncmp += w.zcheck("c05:z", "same-server", w.z.wild, same, nil, info)
	ncmp += w.zcheck("c05:z", "same-server", w.z.od, same, nil, info)
	ncmp += w.zcheck("c05:z", "fresh-control-plane", w.z.wild, fb, same, info)
	ncmp += w.zcheck("c05:z", "fresh-control-plane", w.z.od, fb, same, info)
	c.Count("resources_compared", ncmp)
	zevidence(c, w.z.wild, w.z.od)
	for _, s := range scens {
		if s.cl != nil {
			s.cl.Disconnect(false)
		}
	}
	c.Count("histories", 1)
	c.Count("z_histories", 1)
	if i < 2 {
		var ss []string
		for _, s := range scens[:6] {
			ss = append(ss, s.String())
		}
		c.Sample(map[string]any{"stratum": "z", "history": histText(hist, len(hist)), "scenarios": len(scens), "first_scenarios": ss, "restartAt": restartAt})
	}
}
