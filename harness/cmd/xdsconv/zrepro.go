package main

// zrepro.go: minimal scripted histories for the findings of stratum Z (ambient / ztunnel). They run through the same
// world, clients and oracles (C01 and C03 after every batch) as the generated histories, as cases "zrepro/<name>" of
// property C01, when XDSCONV_REPRO=<name>|all is set:
//
//	XDSCONV_REPRO=ondemand-unsubscribe-removes-everything XDSCONV_STRATA=z /verif/bin/xdsconv -prop C01 -tier quick

import (
	"fmt"
	"time"

	"istio.io/istio/pkg/config"
	"verifharness/internal/vh"
)

func zsub(key string) op {
	return op{Verb: "zsubscribe", Kind: config.GroupVersionKind{Kind: "ztunnel.Subscription"}, Name: key, Z: &zop{Sub: true, Key: key}}
}

func zunsub(key string) op {
	return op{Verb: "zunsubscribe", Kind: config.GroupVersionKind{Kind: "ztunnel.Subscription"}, Name: key, Z: &zop{Sub: false, Key: key}}
}

var zRepros = []krepro{
	{"ondemand-unsubscribe-removes-everything",
		"Z-F1: an on-demand ztunnel holds two workloads it subscribed by uid and drops ONE of the subscriptions. The request resolves to no address, " +
			"generateDeltasOndemand answers with an empty resource list and usedDelta=false, pushDeltaXds then treats the answer as state-of-the-world and " +
			"lists every name the connection watches in removed_resources: the workload that is still subscribed is removed from the client and never sent again",
		func(b *kscript) {
			p0 := b.pod("ns1", "p0", lbl("app", "a"), "sa-a", "10.40.0.3", true)
			p1 := b.pod("ns1", "p1", lbl("app", "a"), "sa-a", "10.40.0.4", true)
			b.init(p0, p1)
			b.add(zsub(podUID("ns1", "p0")), zsub(podUID("ns1", "p1")))
			b.flush()
			b.add(zunsub(podUID("ns1", "p1")))
			b.flush()
		}},
	{"address-subscribed-before-in-use",
		"Z-F3: an on-demand ztunnel subscribes network/ip of an address nothing uses yet (answered with a removal, as specified). A pod then takes the address. " +
			"The push names the pod by uid only, the connection is not subscribed to that name, and the subscription by address is evaluated at request time only: " +
			"the client never learns the workload, while a client that subscribes the same address now gets it",
		func(b *kscript) {
			b.add(zsub("/10.40.0.9"))
			b.flush()
			p9 := b.pod("ns1", "p9", lbl("app", "a"), "sa-a", "10.40.0.9", true)
			b.add(b.k("create", p9, "pod takes the subscribed address"))
			b.flush()
		}},
}

func runZRepros(c *vh.Ctx, sel string) {
	for i, rp := range zRepros {
		if sel != "all" && sel != rp.name {
			continue
		}
		if !c.Mine(len(kRepros) + i) {
			continue
		}
		c.Case("zrepro/"+rp.name, func() {
			defer stratumZ.use()()
			defer withAmbient()()
			b := newKscript()
			for _, o := range b.initial {
				if kind, _, name := kIdent(o); kind == "Namespace" && name == "ns1" {
					b.g.nss[name].Labels[dataplaneMode] = "ambient"
				}
			}
			for i, o := range b.initial {
				if kind, _, name := kIdent(o); kind == "Namespace" {
					b.initial[i] = b.g.nss[name].DeepCopy()
				}
			}
			rp.build(b)
			fmt.Printf("REPRO %s: %s\n", rp.name, rp.what)
			for _, l := range histText(b.batches, len(b.batches)) {
				fmt.Println("REPRO   " + l)
			}
			settled := make([]bool, len(b.batches))
			for bi := range settled {
				settled[bi] = !b.noCheck[bi]
			}
			zrunHistory(c, "zrepro/"+rp.name, false, 2*time.Millisecond, b.initial, b.batches, settled, true, true)
			c.Nontrivial("zrepro/" + rp.name)
			c.Count("z_nontrivial", 1)
		})
	}
}
