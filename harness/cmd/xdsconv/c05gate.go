package main

// c05gate.go: a directed family of C05 cases ("reconnect-gate/<i>", PRNG stream "reconnect-gate") for one schedule
// that free-running reconnects reach only by luck: a (re)connecting stream is parked between the moment
// initConnection reads the global push context and the moment it registers the connection (hook H4,
// "ads.initConnection.beforeAddCon"); while it is parked a configuration change is pushed to completion — the
// push installs its context and enumerates the connections, the parked one is not among them — and then the
// stream goes on. Oracle: at quiescence the client holds what a fresh client of the same proxy on the same
// server holds (C05: "a reconnecting proxy is fully resynchronised"; nothing else will push the change again).
// The gate only fixes the schedule; every step is the server's own code, and the window exists without the hook.

import (
	"fmt"
	"strings"
	"sync/atomic"
	"time"

	networking "istio.io/api/networking/v1alpha3"
	"istio.io/istio/pilot/pkg/xds"
	"istio.io/istio/pkg/config/schema/gvk"
	"verifharness/internal/envoyclient"
	"verifharness/internal/vh"
)

var gateCases = [2]int{16, 96} // quick, thorough

// The two windows: before the connection is registered (a push issued now does not see it), and after it is registered
// but before its state is computed (a push issued now is queued for it and handled after its first requests).
var gatePoints = []string{"ads.initConnection.beforeAddCon", "ads.initializeProxy.start"}

func runGateReconnects(c *vh.Ctx) {
	if !stratumC.enabled() {
		return
	}
	n := gateCases[tierIdx(c)]
	for i := 0; i < n; i++ {
		if !c.Mine(i) {
			continue
		}
		c.Case(fmt.Sprintf("reconnect-gate/%d", i), func() { gateReconnectCase(c, i) })
	}
}

func gateReconnectCase(c *vh.Ctx, i int) {
	r := c.Rng("reconnect-gate", i)
	g := &warmGen{r: r, ts: 1700000000, live: map[string]*networking.ServiceEntry{}, seTS: map[string]int64{}, drTS: map[string]int64{}, paTS: map[string]int64{},
		hosts: []string{"w0.example.com", "w1.example.com", "w2.example.com", "w3.example.com", "w4.example.com", "w5.example.com"}}
	debounce := time.Duration(1+r.Intn(4)) * time.Millisecond
	w := newWorld(c, debounce)
	w.caseName = fmt.Sprintf("reconnect-gate/%d", i)
	cur := w.a
	defer w.close()
	var hist [][]op
	apply := func(b []op) bool {
		var ok []op
		for _, o := range b {
			if g.valid(o) {
				ok = append(ok, o)
			}
		}
		hist = append(hist, ok)
		w.hist = hist
		w.applyBatch(cur, ok)
		w.applied = len(hist)
		c.Count("batches", 1)
		return quiesce(cur)
	}
	var b0 []op
	for _, h := range g.hosts[:2+r.Intn(3)] {
		g.live[h], g.seTS[h] = g.seSpec(h), g.stamp()
		b0 = append(b0, op{Verb: "create", Kind: gvk.ServiceEntry, NS: "ns1", Name: g.seName(h), Spec: g.live[h], TS: g.seTS[h]})
		if r.Intn(2) == 0 {
			if o := (op{Verb: "create", Kind: gvk.DestinationRule, NS: "ns1", Name: g.drName(h), Spec: g.drSpec(h), TS: g.stamp()}); g.valid(o) {
				g.drTS[h] = o.TS
				b0 = append(b0, o)
			}
		}
	}
	if !quiesce(cur) || !apply(b0) {
		c.Inconclusive("initial world did not quiesce")
		return
	}
	// proxy and protocol are enumerated, the rest is drawn
	pi := i % len(proxies)
	delta := (i/len(proxies))%2 == 1
	if delta && !proxies[pi].hasDelta() {
		delta = false
	}
	if !delta && !proxies[pi].hasSotw() {
		delta = true
	}
	gatePoint := gatePoints[(i/(2*len(proxies)))%len(gatePoints)]
	registered := gatePoint == gatePoints[1]
	reconnect := r.Intn(3) > 0 // else: first connection of the proxy
	stale := reconnect && r.Intn(2) == 0
	cl := newClient(proxies[pi], delta, "/gate")
	cl.EDSFirst = !delta && reconnect && r.Intn(3) == 0
	if reconnect {
		cl.Connect(cur.srv.Discovery, envoyclient.Fault{}, false)
		if !quiesce(cur) {
			c.Inconclusive("first connection did not quiesce")
			return
		}
		cl.Disconnect(r.Intn(2) == 0)
		if !quiesce(cur) {
			c.Inconclusive("cut did not quiesce")
			return
		}
	}
	if registered {
		// Proxies of one spec share XDS cache keys. Let the gated client be the only one of its kind, so that what it
		// is answered is generated for it (otherwise the long-lived clients of the same proxy, which are served first,
		// have filled the cache with entries of the new snapshot).
		for _, x := range []*envoyclient.Client{w.sotw[pi], w.delta[pi]} {
			if x != nil {
				x.Disconnect(false)
			}
		}
		if !quiesce(cur) {
			c.Inconclusive("long-lived clients of the proxy did not leave")
			return
		}
	}
	// park the next connection that reaches the gate (there is exactly one: everything else is at rest)
	parked, release := make(chan struct{}), make(chan struct{})
	var armed atomic.Bool
	armed.Store(true)
	xds.SetVerifGate(func(point string) {
		if point == gatePoint && armed.CompareAndSwap(true, false) {
			close(parked)
			<-release
		}
	})
	released := false
	defer func() {
		xds.SetVerifGate(nil)
		if !released {
			close(release)
		}
	}()
	cl.Connect(cur.srv.Discovery, envoyclient.Fault{}, stale)
	select {
	case <-parked:
	case <-time.After(30 * time.Second): // watchdog, not a verdict
		c.Inconclusive("connection never reached the gate")
		return
	}
	c.Count("gate_parked", 1)
	// the change the connection must not miss: pushed to completion while it is parked
	chg, host := g.changeRetained()
	b := append(append([]op{}, chg...), g.changeSet(host)...)
	if len(b) == 0 {
		b = g.changeSet("")
	}
	if !registered {
		if !apply(b) {
			c.Inconclusive("batch pushed during the gate did not quiesce")
			return
		}
	} else {
		// The connection is registered: the push is queued for it and cannot be handed over before initialization is
		// complete, so the server does not come to rest. Wait until the change is committed, every other connection
		// has been served and only the parked one is left in the push queue (watchdog, not a verdict).
		var ok []op
		for _, o := range b {
			if g.valid(o) {
				ok = append(ok, o)
			}
		}
		hist = append(hist, ok)
		w.hist = hist
		w.applyBatch(cur, ok)
		w.applied = len(hist)
		c.Count("batches", 1)
		ds := cur.srv.Discovery
		held := false
		for deadline := time.Now().Add(30 * time.Second); time.Now().Before(deadline); time.Sleep(2 * time.Millisecond) {
			pend, proc := ds.PushQueueStateForVerif()
			if ds.InboundUpdates.Load() == ds.CommittedUpdates.Load() && pend == 0 && proc == 1 {
				// twice in a row, a debounce period apart
				time.Sleep(debounce + 10*time.Millisecond)
				pend, proc = ds.PushQueueStateForVerif()
				if ds.InboundUpdates.Load() == ds.CommittedUpdates.Load() && pend == 0 && proc == 1 {
					held = true
					break
				}
			}
		}
		if !held {
			c.Inconclusive("push for the parked connection was not left alone in the queue")
			return
		}
		c.Count("gate_push_held_for_parked_connection", 1)
	}
	released = true
	close(release)
	if !quiesce(cur) {
		c.Inconclusive("released connection did not quiesce")
		return
	}
	if done, err, pan := cl.StreamErr(); done {
		if pan != "" {
			c.Violation("c05:stream-handler-panic:"+vh.TopIstioFrame(pan), fmt.Sprintf("server stream handler panicked: %s", firstLine(pan)), nil)
		} else {
			c.Inconclusive(fmt.Sprintf("gated stream ended: %v", err))
		}
		return
	}
	// reference: a fresh SotW client of the same proxy on the same server, connected now
	take := func() ([]diff, int, bool) {
		n0 := len(cur.srv.Discovery.AllClients())
		twin := newClient(proxies[pi], false, "/gate-twin")
		twin.Connect(cur.srv.Discovery, envoyclient.Fault{}, false)
		ok := quiesce(cur)
		if resp, _ := twin.ResponsesOnStream(); resp[envoyclient.CDS] == 0 || resp[envoyclient.LDS] == 0 {
			ok = false
		}
		ref := twin.Snapshot()
		twin.Disconnect(false)
		ok = quiesce(cur) && cur.quiesceGone(n0) && ok
		held := cl.Snapshot()
		n := 0
		for _, m := range held {
			n += len(m)
		}
		return compare(held, ref, "connected-through-the-gate", "fresh-same-server"), n, ok
	}
	diffs, n, ok := take()
	if !ok {
		c.Inconclusive("reference client did not quiesce")
		return
	}
	if len(diffs) > 0 {
		// persistence re-check, as everywhere: genuine staleness never repairs itself without a push
		if !regrace(cur) {
			c.Inconclusive("persistence re-check did not quiesce")
			return
		}
		if diffs, n, ok = take(); !ok {
			c.Inconclusive("reference client did not quiesce")
			return
		}
	}
	c.Count("resources_compared", n)
	c.Count("scenarios", 1)
	kind := "first-connect"
	if reconnect {
		kind = "reconnect"
	}
	c.SetAdd("scenario_kinds", "gate:"+protoOf(cl)+":"+kind+":"+gatePoint)
	c.Nontrivial(vh.Hash("reconnect-gate", histHash(hist), proxies[pi].name, protoOf(cl), kind, gatePoint))
	if len(diffs) > 0 {
		types := map[string]bool{}
		for _, d := range diffs {
			types[envoyclient.Short(d.Type)] = true
		}
		var txt []string
		for k, d := range diffs {
			if k < 6 {
				txt = append(txt, d.String())
			}
		}
		c.Violation(gateKey(registered)+strings.Join(sortedKeysOf(types), "+"),
			fmt.Sprintf("%s %s of %s parked at "+gatePoint+" while %s was pushed: after release and quiescence it differs from a fresh client of the same proxy on the same server in %d resources: %v",
				protoOf(cl), kind, proxies[pi].name, kindsOf(b), len(diffs), txt),
			map[string]any{"history": histText(hist, len(hist)), "proxy": proxies[pi].name, "protocol": protoOf(cl), "kind": kind})
	}
	// the same-server twin shares the server's XDS cache with the gated client; the fresh control plane does not
	w.scenInfo = map[string]string{cl.Name: fmt.Sprintf("gate:%s:%s(%s) at %s", protoOf(cl), kind, proxies[pi].name, gatePoint)}
	if ncmp, ok := w.checkAgainstFresh(cur, []*envoyclient.Client{cl}, []int{pi}, "c05", fmt.Sprintf("reconnect-gate/%d end of history, gate=%s", i, gatePoint)); ok {
		c.Count("resources_compared", ncmp)
	}
	for _, v := range cl.ViolationsCopy() {
		c.Violation("c05:delta-protocol-sanity", cl.Name+": "+v, nil)
	}
	cl.Disconnect(false)
	c.Count("histories", 1)
	c.Count("gate_histories", 1)
	if i < 1 {
		c.Sample(map[string]any{"family": "reconnect-gate", "history": histText(hist, len(hist)), "proxy": proxies[pi].name, "protocol": protoOf(cl), "kind": kind})
	}
}

func gateKey(registered bool) string {
	if registered {
		return "c05:gate:pushed-while-registered-connection-not-yet-initialised:"
	}
	return "c05:gate:pushed-while-connection-between-context-read-and-registration:"
}
