// Engine xdsconv: properties C01 (xDS converges to the current config whatever the history),
// C03 (delta xDS == state-of-the-world xDS) and C05 (a reconnecting proxy is fully
// resynchronised). Long-lived Envoy client models on the in-process stream shim follow a
// PRNG history applied through the real config store; at quiescent points (process-wide
// logical idleness) their state is compared with fresh clients of a second control plane
// built from the final state alone, with each other (delta vs SotW), and after enumerated
// stream cuts and reconnects.
package main

import (
	"encoding/json"
	"fmt"
	"math/rand"
	"os"
	"regexp"
	"sort"
	"strconv"
	"strings"
	"sync"
	"time"

	corev3 "github.com/envoyproxy/go-control-plane/envoy/config/core/v3"
	endpointv3 "github.com/envoyproxy/go-control-plane/envoy/config/endpoint/v3"
	"google.golang.org/protobuf/encoding/prototext"
	"google.golang.org/protobuf/proto"
	"google.golang.org/protobuf/types/known/anypb"

	networking "istio.io/api/networking/v1alpha3"
	"istio.io/istio/pilot/pkg/model"
	"istio.io/istio/pilot/pkg/xds"
	xdsfake "istio.io/istio/pilot/test/xds"
	"istio.io/istio/pkg/config"
	"istio.io/istio/pkg/config/schema/gvk"
	"istio.io/istio/pkg/util/sets"
	kruntime "k8s.io/apimachinery/pkg/runtime"
	"verifharness/internal/envoyclient"
	"verifharness/internal/idle"
	"verifharness/internal/quiet"
	"verifharness/internal/vh"
	"verifharness/internal/xdsshim"
	"verifharness/internal/ztunnelclient"
)

func prop(id, rule string, run func(c *vh.Ctx)) vh.Prop {
	return vh.Prop{
		ID: id, Level: map[string]string{"C01": "exploration", "C03": "exploration", "C05": "fault_enumeration"}[id],
		Rule: rule,
		Assumptions: []string{
			"client models (SotW and delta ADS, EDS/RDS subscriptions derived from held clusters/listeners, ACK of every response) are our reading of the xDS protocol as Envoy implements it",
			"quiescence = every goroutine of the process parked on a channel/select/cond AND accepted == committed updates AND push queue empty, observed twice (internal/idle); a watchdog firing makes the case inconclusive",
			"the fresh control plane is a second FakeDiscoveryServer built from a snapshot of the first one's config store (same objects, same creation timestamps)",
			"comparison is proto.Equal per resource name; inside a ClusterLoadAssignment lb_endpoints and localities are compared as sets; a resource that the same server regenerates differently without any change (nondeterminism, property C17) is excluded and counted",
		},
		Anchors:       []string{"pilot/pkg/xds/", "pkg/xds/server.go"},
		MinNontrivial: minNontrivial(id, map[string]int{"quick": 12, "thorough": 150}),
		Batches:       func(t string) int { return map[string]int{"quick": 6, "thorough": 14}[t] },
		Parallel: func(t string) int {
			// XDSCONV_PARALLEL caps the children alive at once (development on a shared machine); batching is unaffected
			if n, err := strconv.Atoi(os.Getenv("XDSCONV_PARALLEL")); err == nil && n > 0 {
				return n
			}
			// a thorough child holds up to ~5 GB (race detector shadow memory of several control planes): 7 alive at once
			// keep the run inside 64 GB; 14 at once exhausted the memory of this machine and never finished
			return map[string]int{"quick": 6, "thorough": 7}[t]
		},
		TimeoutSec: func(t string) int { return map[string]int{"quick": 1200, "thorough": 5400}[t] },
		// no connection rate limiting: its timer waits would look like idleness
		Env: []string{"PILOT_MAX_REQUESTS_PER_SECOND=1000000000000"},
		Run: func(c *vh.Ctx) { quiet.Logs("error"); run(c) },
	}
}

func main() {
	vh.Main(
		prop("C01", "PRNG histories (create/update/no-op update/delete over ServiceEntry, WorkloadEntry, VirtualService, DestinationRule, Sidecar, Gateway, PeerAuthentication, RequestAuthentication, AuthorizationPolicy, EnvoyFilter, Telemetry, WasmPlugin; every object passes the real validator) "+
			"applied in PRNG batches through the real config store to server A with long-lived SotW and delta Envoy clients for 4 proxies (3 sidecars with/without selector labels, 1 router). At PRNG checkpoints and at the end: quiesce, snapshot A's store, build server B from it, connect fresh clients, compare per (proxy, type, name). "+
			"A mismatch is triaged: forced push on A repeated (resource changes without config change => nondeterministic, excluded), equal after forced push => stale (violation), else second fresh server B' decides instance nondeterminism (excluded) vs history dependence (violation). "+
			"Non-trivial: a checkpoint where >=1 push was skipped or narrowed for some client since the previous checkpoint (fewer responses than pushes) and >=1 resource changed for some client. Distinct by hash of the history.", runC01),
		prop("C03", "Same server, histories and clients as C01; after EVERY batch the delta client and the SotW client of each proxy are compared per (type, name) for CDS, EDS, LDS, RDS; the delta client also checks every response for protocol sanity. "+
			"Non-trivial: a history during which >=1 delta response carried removed_resources and >=1 resource changed. Distinct by hash of the history.", runC03),
		prop("C05", "For each history and each client: enumerated cut points (after the n-th response of the initial sync, n=1..8, with and without ACK of that response; send failure on the n-th send; cut at every batch boundary) x {reconnect to the same server, reconnect everybody to a restarted server built from the current state} x {SotW, delta} x {cancel, EOF}; "+
			"a PRNG subset of the remaining batches is applied while the client is away; after reconnect with retained versions/nonces/names and the rest of the history the C01 oracle (fresh control plane) decides, and every re-opened type must have been answered on the new stream. "+
			"Non-trivial: a scenario in which the client missed >=1 change while disconnected and held >=1 resource at the cut. Distinct by (history, scenario).", runC05),
	)
}

// ---------------------------------------------------------------------------------------
// proxies

type proxySpec struct {
	name, ns, ptype, ip string
	labels              map[string]string
	// mode: 0 = a SotW and a delta client, 1 = SotW client only, 2 = delta client only. Proxies backed by a
	// Kubernetes pod have ONE connection per control plane: DiscoveryServer.ProxyUpdate (pod label change,
	// pod arrival) addresses the first connection with the pod's IP only, as one proxy has one stream.
	mode int
	pod  bool // a pod with this name/namespace/IP exists in the Kubernetes world (strata K and Z)
}

func (p proxySpec) hasSotw() bool  { return p.mode != 2 }
func (p proxySpec) hasDelta() bool { return p.mode != 1 }

var proxies = []proxySpec{
	{name: "client-a", ns: "ns1", ptype: "sidecar", ip: "10.50.0.1", labels: map[string]string{"app": "client-a"}},
	{name: "client-b", ns: "ns2", ptype: "sidecar", ip: "10.50.0.2", labels: map[string]string{"app": "client-b"}},
	{name: "plain", ns: "ns3", ptype: "sidecar", ip: "10.50.0.3"},
	{name: "igw", ns: "istio-system", ptype: "router", ip: "10.50.0.4", labels: map[string]string{"istio": "ingressgateway"}},
}

func newClient(p proxySpec, delta bool, suffix string) *envoyclient.Client {
	meta := map[string]any{"ISTIO_VERSION": "1.28.0", "CLUSTER_ID": "Kubernetes"}
	loc := map[string]string{"client-a": "r1/z1", "client-b": "r2/z1"}[p.name]
	if len(p.labels) > 0 {
		l := map[string]any{}
		for k, v := range p.labels {
			l[k] = v
		}
		meta["LABELS"] = l
	}
	kind := "sotw"
	if delta {
		kind = "delta"
	}
	n := xdsshim.Node(p.ptype, p.ip, p.name, p.ns, meta)
	if loc != "" {
		parts := strings.Split(loc, "/")
		n.Locality = &corev3.Locality{Region: parts[0], Zone: parts[1]}
	}
	return envoyclient.New(p.name+"/"+kind+suffix, n, delta)
}

// ---------------------------------------------------------------------------------------
// servers

type server struct {
	maxClients int // see quiesceGone
	f          *vh.F
	srv        *xdsfake.FakeDiscoveryServer
	gen        *genStats
	pushes     *pushLog
	kube       bool // built with Kubernetes objects (strata K and Z): richer root-cause classes in keys
}

// pushLog records, per proxy, what each push request looked like before and after the
// server's own per-proxy dependency filtering (public ProxyNeedsPush hook point).
type pushEntry struct {
	in, out     []string
	forced      bool
	pushed      bool
	targets     []string // hostnames of the proxy's service targets when the request was filtered (strata with Kubernetes objects)
	proxyUpdate bool     // the request carries the ProxyUpdate reason (workload labels are recomputed for it)
	addrs       []string // Address names announced as updated (ambient)
}

type pushLog struct {
	mu    sync.Mutex
	by    map[string][]pushEntry
	stats map[string]*pushStats
	total int
	// dropped: per proxy, every key that some push carried while the request handed to the generators did not. Kept for
	// the whole case: the entries of "by" are a bounded window, and with many scenario clients per proxy (C05) the push
	// that dropped a key has long left it when the final oracle looks for the cause.
	dropped map[string]map[string]bool
}

func (p *pushLog) add(id string, e pushEntry) {
	p.mu.Lock()
	p.total++
	ps := p.stats[id]
	if ps == nil {
		ps = &pushStats{}
		p.stats[id] = ps
	}
	switch classifyPush(e.in, e.forced) {
	case "endpoint-only":
		ps.endpointOnly++
	case "full":
		ps.full++
	default:
		ps.forced++
	}
	if !e.pushed {
		ps.dropped++
	}
	for _, k := range e.in {
		kept := false
		for _, o := range e.out {
			if o == k {
				kept = true
				break
			}
		}
		if !kept {
			if p.dropped == nil {
				p.dropped = map[string]map[string]bool{}
			}
			if p.dropped[id] == nil {
				p.dropped[id] = map[string]bool{}
			}
			p.dropped[id][k] = true
		}
	}
	p.by[id] = append(p.by[id], e)
	if len(p.by[id]) > 400 {
		p.by[id] = p.by[id][200:]
	}
	p.mu.Unlock()
}

// serviceKeyDropped reports whether some push for the proxy carried the ServiceEntry key of the
// hostname while the request handed to the generators did not (dependency filter dropped it).
func (p *pushLog) serviceKeyDropped(proxyID, hostname string) bool {
	p.mu.Lock()
	defer p.mu.Unlock()
	for k := range p.dropped[proxyID] {
		if strings.HasPrefix(k, "ServiceEntry/") && strings.HasSuffix(k, "/"+hostname) {
			return true
		}
	}
	return false
}

// keyDropped reports whether some push for the proxy carried a key with the prefix while the request handed to the
// generators did not.
func (p *pushLog) keyDropped(proxyID, prefix string) bool {
	p.mu.Lock()
	defer p.mu.Unlock()
	for k := range p.dropped[proxyID] {
		if strings.HasPrefix(k, prefix) {
			return true
		}
	}
	return false
}

func keyStrings(req *model.PushRequest) []string {
	if req == nil {
		return nil
	}
	ks := make([]string, 0, len(req.ConfigsUpdated))
	for k := range req.ConfigsUpdated {
		ks = append(ks, k.String())
	}
	sort.Strings(ks)
	return ks
}

// causeOf classifies a resource a delta client kept although it ceased to exist.
func (s *server) causeOf(p proxySpec, t, name string) string {
	if t == envoyclient.CDS || t == envoyclient.EDS {
		_, _, h, _ := model.ParseSubsetKey(name)
		if h != "" && s.pushes.serviceKeyDropped(p.name+"."+p.ns, string(h)) {
			return causeKeyDropped
		}
		if h != "" && s.kube {
			// strata with Kubernetes objects: how did the hostname last reach this proxy's push requests?
			return s.pushes.hostClass(p.name+"."+p.ns, string(h))
		}
	}
	if t == envoyclient.LDS || (t == envoyclient.CDS && strings.HasPrefix(name, "inbound|")) {
		// same defect as the dropped service key, seen for a PeerAuthentication of the root namespace or of the proxy's own:
		// its deletion was already visible in the push context of an EARLIER push that recomputed the sidecar scope for
		// another key, so neither the current nor the previous scope lists it when its own key arrives, and the key is dropped
		if s.pushes.keyDropped(p.name+"."+p.ns, "PeerAuthentication/"+rootNS+"/") || s.pushes.keyDropped(p.name+"."+p.ns, "PeerAuthentication/"+p.ns+"/") {
			return "peerauthentication-key-dropped-by-proxy-dependency-filter"
		}
	}
	if s.kube && (resClass(t, name) == "inbound" || resClass(t, name) == "virtualInbound") && s.pushes.ownServiceKeyDropped(p.name+"."+p.ns) {
		return "own-service-key-dropped-after-service-targets-recomputed"
	}
	if s.kube && (resClass(t, name) == "inbound" || resClass(t, name) == "virtualInbound") && s.pushes.endpointOnlyPushForOwnService(p.name+"."+p.ns) {
		return "service-targets-not-refreshed-on-endpoints-push"
	}
	return "unknown"
}

func newServer(cfgs []config.Config, debounce time.Duration) *server {
	return newServerK(cfgs, nil, debounce)
}

// newServerK additionally preloads the fake Kubernetes API server with kobjs (strata K and Z).
func newServerK(cfgs []config.Config, kobjs []kruntime.Object, debounce time.Duration) *server {
	f := vh.NewF()
	srv := xdsfake.NewFakeDiscoveryServer(f, xdsfake.FakeOptions{Configs: cfgs, KubernetesObjects: kobjs, DebounceTime: debounce})
	pl := &pushLog{by: map[string][]pushEntry{}, stats: map[string]*pushStats{}}
	trace := os.Getenv("XDSCONV_TRACE") != ""
	srv.Discovery.ProxyNeedsPush = func(proxy *model.Proxy, req *model.PushRequest) (*model.PushRequest, bool) {
		in := keyStrings(req)
		r2, ok := xds.DefaultProxyNeedsPush(proxy, req)
		var out []string
		if ok {
			out = keyStrings(r2)
		}
		var targets, addrs []string
		if kobjs != nil {
			for _, st := range proxy.ServiceTargets {
				if st.Service != nil {
					targets = append(targets, string(st.Service.Hostname))
				}
			}
			addrs = sets.SortedList(req.AddressesUpdated)
		}
		pl.add(proxy.ID, pushEntry{in: in, out: out, forced: req.Forced, pushed: ok, targets: targets, proxyUpdate: req.IsProxyUpdate(), addrs: addrs})
		if trace {
			fmt.Printf("TRACE push proxy=%s forced=%v keys=%v kept=%v needsPush=%v\n", proxy.ID, req.Forced, in, out, ok)
		}
		return r2, ok
	}
	return &server{f: f, srv: srv, gen: wrapGenerators(srv.Discovery), pushes: pl, kube: kobjs != nil}
}

func (s *server) idleCond() bool {
	ds := s.srv.Discovery
	p, q := ds.PushQueueStateForVerif()
	if s.maxClients > 0 && len(ds.AllClients()) > s.maxClients {
		return false
	}
	return ds.InboundUpdates.Load() == ds.CommittedUpdates.Load() && p == 0 && q == 0
}

// quiesceGone is quiesce with the additional logical condition that the server has dropped the connection of a client
// connected for the occasion (n0 = connections registered before it connected). DiscoveryServer.ProxyUpdate addresses
// the FIRST connection it finds with the pod's IP: a twin of a pod-backed proxy that is still registered when the next
// batch relabels the pod would swallow the ProxyUpdate meant for the long-lived client.
func (s *server) quiesceGone(n0 int, also ...*server) bool {
	s.maxClients = n0
	defer func() { s.maxClients = 0 }()
	return quiesce(append([]*server{s}, also...)...)
}

func quiesce(servers ...*server) bool {
	noteProgress()
	defer noteProgress()
	cond := func() bool {
		for _, s := range servers {
			if s != nil && !s.idleCond() {
				return false
			}
		}
		return true
	}
	inbound := func() (n int64) {
		for _, s := range servers {
			if s != nil {
				n += s.srv.Discovery.InboundUpdates.Load()
			}
		}
		return n
	}
	// The detector has a known imperfection: under heavy load there are (rare) moments between an input being stored and
	// its handler calling ConfigUpdate in which every goroutine looks parked in two consecutive snapshots. So after the
	// detector says idle a little real time passes and the process must still look idle with no update accepted in
	// between; otherwise wait again. Wall clock only makes this more conservative. The oracles additionally re-check
	// every mismatch after a grace window (regrace) before they triage it.
	deadline := time.Now().Add(90 * time.Second)
	buf := make([]byte, 1<<20)
	for {
		left := time.Until(deadline)
		if left <= 0 {
			fmt.Println("QUIESCE-LOST", "never stayed idle over the confirmation window")
			return false
		}
		ok, why := idle.Wait(cond, left)
		if !ok {
			fmt.Println("QUIESCE-LOST", why)
			return false
		}
		in := inbound()
		time.Sleep(2 * time.Millisecond)
		if !cond() {
			continue
		}
		if still, _, _ := idle.Snapshot(&buf); still && cond() && inbound() == in {
			return true
		}
	}
}

// graceWindow is the real time the persistence re-check of the oracles lets pass (see regrace).
const graceWindow = 50 * time.Millisecond

// regrace is the persistence re-check every oracle makes before it triages a mismatch: no input, no forced push, just
// quiesce, let a grace window of real time pass, quiesce again. The caller then re-takes its snapshots and recomputes the
// differences: genuine staleness never repairs itself without a push, whereas a comparison made while the control plane
// had not even started on the batch (see quiesce) does. Wall clock never decides a verdict here, it only delays one.
func regrace(servers ...*server) bool {
	if !quiesce(servers...) {
		return false
	}
	time.Sleep(graceWindow)
	return quiesce(servers...)
}

// premature records that the mismatches of a comparison were gone after the persistence re-check.
func (w *world) premature(oracle string, gone int) {
	w.c.Count("mismatches_gone_after_requiesce", gone)
	w.c.Count("comparisons_repeated_after_premature_quiescence", 1)
	fmt.Printf("PREMATURE-QUIESCENCE prop=%s case=%s batch=%d oracle=%s gone=%d\n", w.c.Prop.ID, w.caseName, w.applied-1, oracle, gone)
}

// live is the server the clients of the world are connected to right now (C05 replaces it on a restart).
func (w *world) live() *server {
	if w.cur != nil {
		return w.cur
	}
	return w.a
}

func firstLine(s string) string {
	if i := strings.IndexByte(s, '\n'); i >= 0 {
		return s[:i]
	}
	return s
}

func (s *server) apply(o op) error {
	if o.Z != nil {
		return nil // a step of the on-demand ztunnel, not of the control plane
	}
	if o.K != nil {
		return s.applyKube(o)
	}
	st := s.srv.Store()
	switch o.Verb {
	case "create":
		_, err := st.Create(toConfig(o))
		return err
	case "update", "noop-update":
		_, err := st.Update(toConfig(o))
		return err
	case "delete":
		return st.Delete(o.Kind, o.Name, o.NS, nil)
	}
	return nil
}

func (s *server) snapshot() []config.Config {
	var out []config.Config
	for _, k := range allKinds {
		l := s.srv.Store().List(k, "")
		sort.Slice(l, func(i, j int) bool { return l[i].Namespace+"/"+l[i].Name < l[j].Namespace+"/"+l[j].Name })
		for _, c := range l {
			c = c.DeepCopy()
			c.ResourceVersion = ""
			out = append(out, c)
		}
	}
	return out
}

// ---------------------------------------------------------------------------------------
// comparison

func canon(t string, a *anypb.Any) proto.Message {
	if t == envoyclient.EDS {
		m := &endpointv3.ClusterLoadAssignment{}
		if proto.Unmarshal(a.Value, m) != nil {
			return a
		}
		for _, l := range m.Endpoints {
			sort.SliceStable(l.LbEndpoints, func(i, j int) bool { return epKey(l.LbEndpoints[i]) < epKey(l.LbEndpoints[j]) })
		}
		sort.SliceStable(m.Endpoints, func(i, j int) bool { return locKey(m.Endpoints[i]) < locKey(m.Endpoints[j]) })
		return m
	}
	return a
}

func epKey(e *endpointv3.LbEndpoint) string {
	sa := e.GetEndpoint().GetAddress().GetSocketAddress()
	return fmt.Sprintf("%s:%d/%s", sa.GetAddress(), sa.GetPortValue(), e.GetEndpoint().GetAddress().GetPipe().GetPath())
}

func locKey(l *endpointv3.LocalityLbEndpoints) string {
	return fmt.Sprintf("%s/%s/%s/%d", l.GetLocality().GetRegion(), l.GetLocality().GetZone(), l.GetLocality().GetSubZone(), l.GetPriority())
}

type diff struct {
	Type, Name, What string
}

func (d diff) String() string { return envoyclient.Short(d.Type) + " " + d.Name + ": " + d.What }

// compare returns the differences between two held states (type -> name -> resource).
func compare(a, b map[string]map[string]*anypb.Any, la, lb string) []diff {
	var out []diff
	for _, t := range envoyclient.Types {
		names := map[string]bool{}
		for n := range a[t] {
			names[n] = true
		}
		for n := range b[t] {
			names[n] = true
		}
		sorted := make([]string, 0, len(names))
		for n := range names {
			sorted = append(sorted, n)
		}
		sort.Strings(sorted)
		for _, n := range sorted {
			ra, oka := a[t][n]
			rb, okb := b[t][n]
			switch {
			case !oka:
				out = append(out, diff{t, n, "held by " + lb + " only"})
			case !okb:
				out = append(out, diff{t, n, "held by " + la + " only"})
			case !proto.Equal(canon(t, ra), canon(t, rb)):
				out = append(out, diff{t, n, "content differs"})
			}
		}
	}
	return out
}

func resourceText(t string, a *anypb.Any) string {
	if a == nil {
		return "<absent>"
	}
	m, err := a.UnmarshalNew()
	if err != nil {
		return fmt.Sprintf("<%d bytes>", len(a.Value))
	}
	s := prototext.MarshalOptions{Multiline: false}.Format(m)
	if len(s) > 6000 {
		s = s[:6000] + "…"
	}
	return s
}

func resourceFullText(a *anypb.Any) string {
	if a == nil {
		return ""
	}
	m, err := a.UnmarshalNew()
	if err != nil {
		return ""
	}
	return prototext.MarshalOptions{Multiline: false}.Format(m)
}

var clusterRefRe = regexp.MustCompile(`outbound\|\d+\|[^|"]*\|([A-Za-z0-9.*_-]+)`)

// hostsReferencedByOneOnly: hostnames of outbound clusters named in exactly one of two resource texts.
func hostsReferencedByOneOnly(x, y string) []string {
	in := func(t string) map[string]bool {
		m := map[string]bool{}
		for _, g := range clusterRefRe.FindAllStringSubmatch(t, -1) {
			m[g[1]] = true
		}
		return m
	}
	a, b := in(x), in(y)
	var out []string
	for h := range a {
		if !b[h] {
			out = append(out, h)
		}
	}
	for h := range b {
		if !a[h] {
			out = append(out, h)
		}
	}
	sort.Strings(out)
	return out
}

// firstTextDiff gives a short window around the first difference of two texts.
func firstTextDiff(x, y string) string {
	i := 0
	for i < len(x) && i < len(y) && x[i] == y[i] {
		i++
	}
	lo := i - 120
	if lo < 0 {
		lo = 0
	}
	hx, hy := i+160, i+160
	if hx > len(x) {
		hx = len(x)
	}
	if hy > len(y) {
		hy = len(y)
	}
	return fmt.Sprintf("…%s <<<A|B>>> …%s", x[lo:hx], y[lo:hy])
}

// ---------------------------------------------------------------------------------------
// world under test: server A with its long-lived clients

type world struct {
	c        *vh.Ctx
	st       string // stratum: "" (config store only) | "k" | "z"
	a        *server
	sotw     []*envoyclient.Client // indexed like proxies; nil where the proxy has no client of that protocol
	delta    []*envoyclient.Client
	kube     *kstate         // authoritative Kubernetes objects as applied (nil in the config-store stratum)
	kindsCP  map[string]bool // kinds changed since the last checkpoint
	hist     [][]op
	applied  int               // batches applied
	scenInfo map[string]string // c05: client name -> scenario text
	caseName string            // for diagnostics only
	// selectors of every version of every Sidecar applied in this history (namespace/name -> label selectors; nil selects all)
	sidecarSel map[string][]map[string]string
	cur        *server // c05: the server the clients are connected to now, if it is not a (see live)
	// a Service exported to nobody (exportTo "~") was touched since the previous checkpoint
	touchedUnexported bool
	// pod-backed proxies whose pod was relabelled while not ready and has not become ready since (finding F2: the
	// pod cache ignores the event, so the proxy's workload labels are stale until the pod is ready again)
	proxyPodStale map[string]bool
	// live ServiceEntries of the config store (namespace/name -> hosts), to recognise hostnames served by two registries
	liveSE map[string][]string
	// hostnames <svc>.<ns>.svc.cluster.local that a ServiceEntry of namespace <ns> defined at ANY time of this history (shape
	// S1): what the two registries left in the shared (namespace, hostname) index entries outlives the ServiceEntry
	squatHosts map[string]bool
	// stratum Z: the long-lived ztunnel clients
	z *zclients
}

func newWorld(c *vh.Ctx, debounce time.Duration) *world { return newWorldK(c, debounce, "", nil) }

// newWorldK starts server A preloaded with the initial Kubernetes objects and connects the long-lived clients.
func newWorldK(c *vh.Ctx, debounce time.Duration, st string, kinit []kruntime.Object) *world {
	w := &world{c: c, st: st, kindsCP: map[string]bool{}}
	if st != "" {
		w.kube = newKstate(kinit)
	}
	w.a = newServerK(nil, w.kube.list(), debounce)
	for _, p := range proxies {
		var s, d *envoyclient.Client
		if p.hasSotw() {
			s = newClient(p, false, "")
		}
		if p.hasDelta() {
			d = newClient(p, true, "")
		}
		w.sotw = append(w.sotw, s)
		w.delta = append(w.delta, d)
		if s != nil {
			s.Connect(w.a.srv.Discovery, envoyclient.Fault{}, false)
		}
		if d != nil {
			d.Connect(w.a.srv.Discovery, envoyclient.Fault{}, false)
		}
	}
	return w
}

// pfx puts the stratum after the property prefix of a violation key ("c01" -> "c01:k").
func (w *world) pfx(p string) string {
	if w.st == "" {
		return p
	}
	return p + ":" + w.st
}

func nonNil(cls []*envoyclient.Client) []*envoyclient.Client {
	out := make([]*envoyclient.Client, 0, len(cls))
	for _, cl := range cls {
		if cl != nil {
			out = append(out, cl)
		}
	}
	return out
}

// clients returns all long-lived clients (SotW ones first) and the proxy index of each.
func (w *world) clients() (cls []*envoyclient.Client, pidx []int) {
	for pi, cl := range w.sotw {
		if cl != nil {
			cls, pidx = append(cls, cl), append(pidx, pi)
		}
	}
	for pi, cl := range w.delta {
		if cl != nil {
			cls, pidx = append(cls, cl), append(pidx, pi)
		}
	}
	return
}

// primary is the client whose state stands for "what the proxy holds" in coverage accounting.
func (w *world) primary(pi int) *envoyclient.Client {
	if w.sotw[pi] != nil {
		return w.sotw[pi]
	}
	return w.delta[pi]
}

func (w *world) close() {
	cls, _ := w.clients()
	for _, cl := range cls {
		cl.Disconnect(false)
	}
	w.a.f.Done()
}

func (w *world) applyBatch(s *server, b []op) {
	for _, o := range b {
		if err := s.apply(o); err != nil {
			vh.Abort("apply %s: %v", o, err)
		}
		if o.Z != nil {
			if w.z != nil {
				for _, od := range append([]*ztunnelclient.Client{w.z.od}, w.z.moreOD...) {
					if o.Z.Sub {
						od.Subscribe(o.Z.Key)
					} else {
						od.Unsubscribe(o.Z.Key)
					}
				}
			}
			continue
		}
		if o.K != nil {
			prev, hadPrev := w.kube.objs[o.K.Kind+"/"+o.NS+"/"+o.Name]
			if hadPrev && isUnexported(prev) || o.K.Obj != nil && isUnexported(o.K.Obj) {
				w.touchedUnexported = true
			}
			w.noteProxyPod(o, prev)
			w.kube.applied(o)
		} else if o.Kind == gvk.ServiceEntry {
			if w.liveSE == nil {
				w.liveSE = map[string][]string{}
			}
			if o.Verb == "delete" {
				delete(w.liveSE, o.NS+"/"+o.Name)
			} else if se, ok := o.Spec.(*networking.ServiceEntry); ok {
				w.liveSE[o.NS+"/"+o.Name] = append([]string(nil), se.Hosts...)
				for _, h := range se.Hosts {
					if strings.HasSuffix(h, "."+o.NS+".svc.cluster.local") {
						if w.squatHosts == nil {
							w.squatHosts = map[string]bool{}
						}
						w.squatHosts[h] = true
					}
				}
			}
		}
		if o.K == nil && o.Kind == gvk.Sidecar {
			if sc, ok := o.Spec.(*networking.Sidecar); ok {
				if w.sidecarSel == nil {
					w.sidecarSel = map[string][]map[string]string{}
				}
				w.sidecarSel[o.NS+"/"+o.Name] = append(w.sidecarSel[o.NS+"/"+o.Name], sc.GetWorkloadSelector().GetLabels())
			}
		}
		w.kindsCP[o.Kind.Kind] = true
	}
}

// sidecarKeyDropped: the push log shows the key of a Sidecar dropped for the proxy by the dependency filter although a
// version of that Sidecar applied in this history selected the proxy (or everything in its namespace). Same defect as
// the dropped service key: the Sidecar's deletion (or the change that made it stop selecting the proxy) was already
// visible in the push context of an earlier push, which recomputed the scope for another key and generated only that
// key's resources; when the Sidecar's own key arrives neither the current nor the previous scope depends on it.
func (w *world) sidecarKeyDropped(s *server, p proxySpec) bool {
	for key, sels := range w.sidecarSel {
		ns := key[:strings.IndexByte(key, '/')]
		if ns != p.ns && ns != rootNS {
			continue
		}
		selected := false
		for _, sel := range sels {
			m := true
			for k, v := range sel {
				if p.labels[k] != v {
					m = false
				}
			}
			if m {
				selected = true
			}
		}
		if selected && s.pushes.keyDropped(p.name+"."+p.ns, "Sidecar/"+key) {
			return true
		}
	}
	return false
}

func (w *world) changedKinds() string {
	ks := make([]string, 0, len(w.kindsCP))
	for k := range w.kindsCP {
		ks = append(ks, k)
	}
	sort.Strings(ks)
	return strings.Join(ks, "+")
}

// freshStates builds a server from cfgs (and kobjs), connects fresh SotW clients for all proxies and
// returns their held state once quiescent. The server is torn down before returning.
func freshStates(cfgs []config.Config, kobjs []kruntime.Object, debounce time.Duration, also *server) ([]map[string]map[string]*anypb.Any, bool) {
	b := newServerK(cfgs, kobjs, debounce)
	defer b.f.Done()
	var cls []*envoyclient.Client
	for _, p := range proxies {
		cl := newClient(p, false, "/fresh")
		cl.Connect(b.srv.Discovery, envoyclient.Fault{}, false)
		cls = append(cls, cl)
	}
	ok := quiesce(b, also)
	if os.Getenv("XDSCONV_DUMP") != "" {
		for _, x := range []*server{b, also} {
			if x == nil {
				continue
			}
			pc := x.srv.Env().PushContext()
			for _, svc := range x.srv.Env().ServiceDiscovery.Services() {
				shardSAs := "?"
				if sh, f := x.srv.Env().EndpointIndex.ShardsForService(string(svc.Hostname), svc.Attributes.Namespace); f {
					sh.RLock()
					shardSAs = fmt.Sprint(sets.SortedList(sh.ServiceAccounts))
					n := 0
					for k, eps := range sh.Shards {
						n += len(eps)
						for _, e := range eps {
							shardSAs += fmt.Sprintf(" {%s %v:%d %s sa=%q h=%v}", k, e.Addresses, e.EndpointPort, e.ServicePortName, e.ServiceAccount, e.HealthStatus)
						}
					}
					shardSAs += fmt.Sprintf(" endpoints=%d", n)
					sh.RUnlock()
				}
				fmt.Printf("DUMP-SA server=%p fresh=%v %s/%s pushctx=%v shard=%s\n", x, x == b, svc.Attributes.Namespace, svc.Hostname, pc.ServiceAccounts(svc.Hostname, svc.Attributes.Namespace), shardSAs)
			}
		}
	}
	var out []map[string]map[string]*anypb.Any
	for _, cl := range cls {
		if done, err, pan := cl.StreamErr(); done {
			fmt.Printf("FRESH-STREAM-ENDED %s err=%v panic=%s\n", cl.Name, err, firstLine(pan))
			ok = false
		}
		snap := cl.Snapshot()
		if resp, _ := cl.ResponsesOnStream(); resp[envoyclient.CDS] == 0 || resp[envoyclient.LDS] == 0 {
			// a fresh client that has not been answered means the quiescence detector returned early
			ok = false
			_, opened := cl.ResponsesOnStream()
			fmt.Printf("FRESH-CLIENT-EMPTY %s responses=%v opened=%v connected=%v\n", cl.Name, resp, opened, cl.Connected())
		}
		out = append(out, snap)
		cl.Disconnect(false)
	}
	return out, ok
}

// sotwView returns the state-of-the-world view of proxy pi on server s: the long-lived SotW client's state
// if the proxy has one, else the state of a fresh SotW client with the same identity connected for the
// occasion (only at quiescent points, and disconnected again before anything else happens).
func (w *world) sotwView(s *server, pi int) (map[string]map[string]*anypb.Any, bool) {
	if w.sotw[pi] != nil {
		return w.sotw[pi].Snapshot(), true
	}
	n0 := len(s.srv.Discovery.AllClients())
	cl := newClient(proxies[pi], false, "/fresh-same-server")
	cl.Connect(s.srv.Discovery, envoyclient.Fault{}, false)
	ok := quiesce(s)
	if done, err, pan := cl.StreamErr(); done {
		fmt.Printf("FRESH-STREAM-ENDED %s err=%v panic=%s\n", cl.Name, err, firstLine(pan))
		ok = false
	}
	if resp, _ := cl.ResponsesOnStream(); resp[envoyclient.CDS] == 0 || resp[envoyclient.LDS] == 0 {
		ok = false
	}
	snap := cl.Snapshot()
	cl.Disconnect(false)
	okq := quiesce(s)
	if n := len(s.srv.Discovery.AllClients()); okq && n > n0 {
		// the detector said idle while the server had not yet dropped the twin's connection (known imperfection, see quiesce)
		w.c.Count("twin_still_registered_after_quiesce", 1)
		fmt.Printf("TWIN-STILL-REGISTERED case=%s batch=%d connections=%d expected=%d\n", w.caseName, w.applied-1, n, n0)
	}
	return snap, okq && s.quiesceGone(n0) && ok
}

// forcePush makes server s regenerate everything for everybody.
func forcePush(s *server) bool {
	s.srv.Discovery.ConfigUpdate(&model.PushRequest{Forced: true, Reason: model.NewReasonStats(model.DebugTrigger)})
	return quiesce(s)
}

// checkAgainstFresh is the C01 oracle for the given long-lived clients of server s.
// prefix distinguishes the caller (c01 / c05, plus the stratum) in violation keys.
func (w *world) checkAgainstFresh(s *server, clients []*envoyclient.Client, pidx []int, prefix, ctxInfo string) (compared int, ok bool) {
	c := w.c
	cfgs := s.snapshot()
	kobjs := w.kube.list()
	fresh, okq := freshStates(cfgs, kobjs, 2*time.Millisecond, s)
	if !okq {
		c.Inconclusive("fresh server did not quiesce")
		return 0, false
	}
	var fresh2 []map[string]map[string]*anypb.Any
	// what every client holds NOW, before any triage: the forced pushes of the triage repair stale resources
	// of all clients at once, so nothing may be looked at for the first time after them
	helds := make([]map[string]map[string]*anypb.Any, len(clients))
	alldiffs := make([][]diff, len(clients))
	take := func() (n int) {
		compared = 0
		for i, cl := range clients {
			helds[i] = cl.Snapshot()
			for _, m := range helds[i] {
				compared += len(m)
			}
			alldiffs[i] = compare(helds[i], fresh[pidx[i]], "long-lived", "fresh")
			n += len(alldiffs[i])
		}
		return n
	}
	first := take()
	if first == 0 {
		return compared, true
	}
	firstSet := map[string]bool{}
	for i := range clients {
		for _, d := range alldiffs[i] {
			firstSet[fmt.Sprint(i, " ", d)] = true
		}
	}
	// persistence re-check (see regrace): no input, no forced push; both sides are taken again
	if !regrace(s) {
		c.Inconclusive("persistence re-check did not quiesce")
		return compared, false
	}
	// first against the reference already taken: what is gone now was the long-lived side catching up
	take()
	still := map[string]bool{}
	for i := range clients {
		for _, d := range alldiffs[i] {
			still[fmt.Sprint(i, " ", d)] = true
		}
	}
	gone := 0
	for k := range firstSet {
		if !still[k] {
			gone++
		}
	}
	if gone > 0 {
		w.premature(prefix+":fresh-control-plane", gone)
	}
	if len(still) == 0 {
		return compared, true
	}
	// then against a reference taken again: what is gone now differed between two fresh control planes (a reference read
	// too early, or instance nondeterminism such as the informer start order), which the triage would have excluded anyway
	if fresh, okq = freshStates(cfgs, kobjs, 2*time.Millisecond, s); !okq {
		c.Inconclusive("fresh server did not quiesce")
		return compared, false
	}
	second := take()
	for i := range clients {
		for _, d := range alldiffs[i] {
			delete(still, fmt.Sprint(i, " ", d))
		}
	}
	if len(still) > 0 {
		c.Count("mismatches_gone_with_second_fresh_control_plane", len(still))
		fmt.Printf("FRESH-REFERENCE-DIFFERED prop=%s case=%s batch=%d oracle=%s gone=%d\n", c.Prop.ID, w.caseName, w.applied-1, prefix+":fresh-control-plane", len(still))
	}
	if second == 0 {
		return compared, true
	}
	for i := range clients {
		if len(alldiffs[i]) > 0 {
			c.Count("mismatches_before_triage", len(alldiffs[i]))
		}
	}
	// triage 1: does a forced push change the long-lived clients' copies?
	if !forcePush(s) {
		c.Inconclusive("forced push did not quiesce")
		return compared, false
	}
	helds2 := make([]map[string]map[string]*anypb.Any, len(clients))
	for i, cl := range clients {
		helds2[i] = cl.Snapshot()
	}
	if !forcePush(s) {
		c.Inconclusive("forced push did not quiesce")
		return compared, false
	}
	for i, cl := range clients {
		diffs := alldiffs[i]
		if len(diffs) == 0 {
			continue
		}
		held, held2, held3 := helds[i], helds2[i], cl.Snapshot()
		svcKeyDropped := false
		for _, d := range diffs {
			if s.causeOf(proxies[pidx[i]], d.Type, d.Name) == causeKeyDropped {
				svcKeyDropped = true
			}
		}
		var classes map[string]string
		if w.st != "" {
			addrNote = w.addrNoteK
			classes = classifyDiffs(diffs, held2, fresh[pidx[i]], w.hostInfo)
			addrNote = nil
		}
		for _, d := range diffs {
			t, n := d.Type, d.Name
			r1, r2, r3, rf := held[t][n], held2[t][n], held3[t][n], fresh[pidx[i]][t][n]
			same := func(x, y *anypb.Any) bool {
				if x == nil || y == nil {
					return x == nil && y == nil
				}
				return proto.Equal(canon(t, x), canon(t, y))
			}
			if !same(r2, r3) {
				c.Count("excluded_nondeterministic", 1)
				c.SetAdd("excluded_nondeterministic_resources", envoyclient.Short(t))
				continue
			}
			if same(r2, rf) {
				// the client held something else until a forced push made the server resend it
				cause := s.causeOf(proxies[pidx[i]], t, n)
				if (cause == "unknown" || strings.HasPrefix(cause, "host-")) && w.sidecarKeyDropped(s, proxies[pidx[i]]) {
					cause = "sidecar-key-dropped-by-proxy-dependency-filter"
				}
				if cause == "unknown" && svcKeyDropped && (t == envoyclient.LDS || t == envoyclient.RDS) {
					cause = "co-occurs-with-service-key-dropped-by-proxy-dependency-filter"
				}
				if cause == "unknown" && (t == envoyclient.LDS || t == envoyclient.RDS) {
					// a listener / route that differs in the clusters it references: was the service key of such a hostname
					// dropped by the per-proxy dependency filter (the known defect, seen here without a cluster difference
					// on this client: a later full CDS repaired the clusters, nothing repaired the route)?
					for _, h := range hostsReferencedByOneOnly(resourceFullText(r1), resourceFullText(rf)) {
						if s.pushes.serviceKeyDropped(proxies[pidx[i]].name+"."+proxies[pidx[i]].ns, h) {
							cause = causeKeyDropped
							break
						}
					}
				}
				ckey := "cause=" + cause
				if cause == "unknown" {
					ckey += ":changed=" + w.changedKinds()
				}
				skey := fmt.Sprintf("%s:stale-until-forced-push:%s:%s:%s:proxy=%s:client=%s", prefix, ckey, whatKey(d.What), envoyclient.Short(t), proxies[pidx[i]].ptype, protoOf(cl))
				if w.st != "" {
					// new strata: resource class and root-cause hints first, volatile detail (changed kinds) in the message only
					cause = w.refineCause(cause, proxies[pidx[i]], t, n, d, classes[d.String()], r1, rf)
					skey = fmt.Sprintf("%s:stale-until-forced-push:cause=%s:%s:%s:%s:proxy=%s:client=%s", prefix, cause, envoyclient.Short(t), resClass(t, n), whatKey(d.What), proxies[pidx[i]].ptype, protoOf(cl))
				}
				c.Violation(skey,
					fmt.Sprintf("%s client %s: %s; a forced push brings it to the fresh state, so a push that should have carried it was skipped or narrowed. %s. diff: %s",
						prefix, cl.Name, d, ctxInfo, firstTextDiff(resourceText(t, r1), resourceText(t, rf))),
					map[string]any{"client": cl.Name, "scenario": w.scenInfo[cl.Name], "resource": d.String(), "history": histText(w.hist, w.applied), "context": ctxInfo,
						"pushlog": s.pushes.tail(proxies[pidx[i]].name+"."+proxies[pidx[i]].ns, 12)})
				continue
			}
			// still different from the fresh server after forced pushes: history dependence or instance nondeterminism?
			if fresh2 == nil {
				var ok2 bool
				fresh2, ok2 = freshStates(cfgs, kobjs, 2*time.Millisecond, s)
				if !ok2 {
					c.Inconclusive("second fresh server did not quiesce")
					return compared, false
				}
			}
			if !same(rf, fresh2[pidx[i]][t][n]) {
				c.Count("excluded_instance_nondeterministic", 1)
				c.SetAdd("excluded_nondeterministic_resources", envoyclient.Short(t)+"(instance)")
				c.SetAdd("excluded_instance_nondeterministic_detail", envoyclient.Short(t)+" "+n+": "+firstTextDiff(resourceText(t, rf), resourceText(t, fresh2[pidx[i]][t][n])))
				continue
			}
			if os.Getenv("XDSCONV_DUMP") != "" {
				full := func(a *anypb.Any) string {
					if a == nil {
						return "<absent>"
					}
					m, err := a.UnmarshalNew()
					if err != nil {
						return "<undecodable>"
					}
					return prototext.MarshalOptions{Multiline: false}.Format(m)
				}
				fmt.Printf("DUMP history-dependent %s %s %s\n  LONG-LIVED: %s\n  FRESH: %s\n", cl.Name, envoyclient.Short(t), n, full(r2), full(rf))
			}
			hkey := fmt.Sprintf("%s:history-dependent:%s:proxy=%s:%s", prefix, envoyclient.Short(t), proxies[pidx[i]].ptype, whatKey(d.What))
			if w.st != "" {
				// new strata: root-cause hint before the proxy type, so that a family can be named by prefix
				cls := classes[d.String()]
				if pc := w.proxyCause(s, proxies[pidx[i]]); pc != "" && !shapeSpecific(cls) {
					// the proxy's own state (workload labels, service targets) is known to be stale: everything derived from it differs
					cls = pc
				}
				hkey = fmt.Sprintf("%s:history-dependent:%s:%s:%s:%s:proxy=%s", prefix, cls, envoyclient.Short(t), resClass(t, n), whatKey(d.What), proxies[pidx[i]].ptype)
			}
			c.Violation(hkey,
				fmt.Sprintf("%s client %s: %s even after forced pushes, while two fresh control planes built from the final state agree with each other. %s. diff: %s",
					prefix, cl.Name, d, ctxInfo, firstTextDiff(resourceText(t, r2), resourceText(t, rf))),
				map[string]any{"client": cl.Name, "resource": d.String(), "history": histText(w.hist, w.applied), "context": ctxInfo,
					"pushlog": s.pushes.tail(proxies[pidx[i]].name+"."+proxies[pidx[i]].ns, 12)})
		}
	}
	return compared, true
}

func protoOf(cl *envoyclient.Client) string {
	if cl.Delta {
		return "delta"
	}
	return "sotw"
}

func whatKey(w string) string {
	switch {
	case strings.Contains(w, "long-lived only"):
		return "extra"
	case strings.Contains(w, "fresh only"):
		return "missing"
	}
	return "content"
}

func histText(h [][]op, upto int) []string {
	var out []string
	for i, b := range h {
		if i >= upto {
			break
		}
		var parts []string
		for _, o := range b {
			s := o.String()
			if o.K != nil {
				s += " [" + o.K.Note + "]"
				if o.K.Obj != nil {
					s += " " + kubeText(o.K.Obj)
				}
			}
			if o.Spec != nil {
				if m, ok := o.Spec.(proto.Message); ok {
					txt := prototext.MarshalOptions{Multiline: false}.Format(m)
					if len(txt) > 300 {
						txt = txt[:300] + "…"
					}
					s += " {" + txt + "}"
				}
			}
			parts = append(parts, s)
		}
		out = append(out, fmt.Sprintf("batch %d: %s", i, strings.Join(parts, " ; ")))
	}
	return out
}

func allIdx() []int {
	out := make([]int, len(proxies))
	for i := range out {
		out[i] = i
	}
	return out
}

func sumStats(cls []*envoyclient.Client, key string) int {
	n := 0
	for _, cl := range cls {
		if cl != nil {
			n += cl.StatsCopy()[key]
		}
	}
	return n
}

func histHash(h [][]op) string {
	var parts []string
	for _, b := range h {
		for _, o := range b {
			parts = append(parts, o.String())
			if o.K != nil {
				parts = append(parts, o.K.Note)
			}
		}
		parts = append(parts, "|")
	}
	return vh.Hash(parts)
}

// ---------------------------------------------------------------------------------------
// strata

// A stratum is a family of cases with its own case names, PRNG streams, proxies and world. The
// config-store stratum ("c") is the one the checks were first qualified on; its cases, streams and
// keys never change. Strata are switched with XDSCONV_STRATA (comma separated).
type stratum struct {
	id        string // "" | "k" | "z" (as it appears in keys)
	sw        string // name in XDSCONV_STRATA
	histCase  string // case name of C01/C03 histories
	reconCase string // case name of C05 histories
	nHist     [2]int // quick, thorough
	nRecon    [2]int
	proxies   []proxySpec
}

var (
	stratumC = &stratum{id: "", sw: "c", histCase: "history", reconCase: "reconnect", nHist: [2]int{72, 600}, nRecon: [2]int{18, 200}, proxies: proxies}
	stratumK = &stratum{id: "k", sw: "k", histCase: "khist", reconCase: "kreconnect", nHist: [2]int{18, 150}, nRecon: [2]int{6, 60}, proxies: proxiesK}
	strata   = []*stratum{stratumC, stratumK}
)

// All three strata are qualified (silent at seeds 1..5 quick and once thorough with the registered known findings, see
// EXTEND-STATUS.md) and on by default; XDSCONV_STRATA=c restores the original scope.
const defaultStrata = "c,k,z"

func (st *stratum) enabled() bool {
	v := os.Getenv("XDSCONV_STRATA")
	if v == "" {
		v = defaultStrata
	}
	for _, x := range strings.Split(v, ",") {
		if strings.TrimSpace(x) == st.sw {
			return true
		}
	}
	return false
}

// use makes the stratum's proxies current for the duration of a case (cases run sequentially in a child).
func (st *stratum) use() (restore func()) {
	saved := proxies
	proxies = st.proxies
	return func() { proxies = saved }
}

// minNontrivial is the floor of distinct non-trivial cases; in addition every enabled stratum must have
// contributed (counter <stratum>_nontrivial of the evidence file the parent has just written for this run),
// otherwise the floor becomes unreachable and the check reports BROKEN instead of a verdict.
func minNontrivial(id string, base map[string]int) func(string) int {
	return func(tier string) int {
		if reproSelected() != "" {
			return 1
		}
		floor := base[tier]
		if !strata[0].enabled() {
			// development configuration without the config-store stratum the floors were measured on
			floor = 1
		}
		root := os.Getenv("VERIF_OUT")
		if root == "" {
			root = vh.VerifRoot
		}
		b, err := os.ReadFile(root + "/evidence/" + id + ".json")
		if err != nil {
			return floor
		}
		var ev struct {
			Tier     string `json:"tier"`
			Coverage struct {
				Counters map[string]int64 `json:"counters"`
			} `json:"coverage"`
		}
		if json.Unmarshal(b, &ev) != nil || ev.Tier != tier {
			return floor
		}
		for _, st := range strata {
			if st.id == "" || !st.enabled() {
				continue
			}
			if ev.Coverage.Counters[st.id+"_nontrivial"] == 0 {
				fmt.Printf("BROKEN-STRATUM: stratum %q is enabled but contributed no non-trivial case (counter %s_nontrivial == 0)\n", st.sw, st.id)
				return 1 << 30
			}
		}
		return floor
	}
}

func tierIdx(c *vh.Ctx) int {
	if c.Quick() {
		return 0
	}
	return 1
}

// ---------------------------------------------------------------------------------------
// C01 and C03 share the driver; the oracle that is enabled differs.

func runC01(c *vh.Ctx) { runHistories(c, true, false) }
func runC03(c *vh.Ctx) { runHistories(c, false, true) }

func runHistories(c *vh.Ctx, c01, c03 bool) {
	if reproSelected() != "" {
		// scripted minimal histories of known findings only (krepro.go)
		if c01 {
			runRepros(c)
		}
		return
	}
	if c01 && stratumK.enabled() {
		runProbes(c)
	}
	for _, st := range strata {
		if !st.enabled() {
			continue
		}
		n := st.nHist[tierIdx(c)]
		for i := 0; i < n; i++ {
			if !c.Mine(i) {
				continue
			}
			c.Case(fmt.Sprintf("%s/%d", st.histCase, i), func() {
				defer st.use()()
				if st.id == "z" {
					zhistoryCase(c, st, i, c01, c03)
				} else {
					historyCase(c, st, i, c01, c03)
				}
			})
		}
	}
}

func historyCase(c *vh.Ctx, st *stratum, i int, c01, c03 bool) {
	var hist [][]op
	var settled []bool // strata with Kubernetes objects: the simulated EndpointSlice controller has caught up after batch i
	var w *world
	switch st.id {
	case "":
		r := c.Rng("history", i)
		nops := 12 + r.Intn(c.N(20, 50))
		hist = genHistory(r, nops)
		w = newWorld(c, time.Duration(1+r.Intn(5))*time.Millisecond)
	case "k":
		r := c.Rng("khist", i)
		nops := 30 + r.Intn(c.N(30, 60))
		kinit, h, st := genKHistory(r, nops)
		hist, settled = h, st
		w = newWorldK(c, time.Duration(1+r.Intn(5))*time.Millisecond, "k", kinit)
	}
	defer w.close()
	w.hist = hist
	w.caseName = fmt.Sprintf("%s/%d", st.histCase, i)
	if os.Getenv("XDSCONV_PRINT_HIST") != "" {
		for _, l := range histText(hist, len(hist)) {
			fmt.Println("HIST " + l)
		}
	}
	propKey := strings.ToLower(c.Prop.ID)
	if !quiesce(w.a) {
		c.Inconclusive("initial sync did not quiesce")
		return
	}
	// a checkpoint after every batch: a stale resource is often repaired by the next unrelated push
	checkpoints := map[int]bool{}
	for k := range hist {
		checkpoints[k] = settled == nil || settled[k]
	}
	removalsSeen, changed := false, false
	prevSkip, prevNarrow, _ := w.a.gen.totals()
	var prevState []map[string]map[string]*anypb.Any
	for pi := range proxies {
		prevState = append(prevState, w.primary(pi).Snapshot())
	}
	all, allPidx := w.clients()
	nCheckpoints := 0
	for bi, b := range hist {
		w.applyBatch(w.a, b)
		w.applied = bi + 1
		if !quiesce(w.a) {
			c.Inconclusive(fmt.Sprintf("batch %d did not quiesce", bi))
			return
		}
		if validateIdle && !w.stableAfterIdle() {
			c.Violation(w.pfx(propKey)+":harness:quiescence-detector-returned-early", fmt.Sprintf("after batch %d the process was declared idle but something still changed afterwards", bi), map[string]any{"history": histText(hist, bi+1)})
			return
		}
		c.Count("batches", 1)
		c.Count("ops", len(b))
		for pi := range proxies {
			for n := range w.primary(pi).Snapshot()[envoyclient.CDS] {
				if parts := strings.Split(n, "|"); len(parts) == 4 && parts[2] != "" {
					c.Count("subset_clusters_held_observations", 1)
				}
			}
		}
		c.SetAdd("batch_sizes", fmt.Sprint(len(b)))
		for _, o := range b {
			c.SetAdd("op_kinds", o.Verb+" "+o.Kind.Kind)
			if o.K != nil {
				c.Count("kube_ops:"+o.Verb+"_"+o.K.Kind, 1)
				c.Count(st.id+"_kube_ops", 1)
			} else if st.id != "" {
				c.Count(st.id+"_config_ops", 1)
			}
		}
		propLower := strings.ToLower(c.Prop.ID)
		w.warmingCheck(propLower, "long-lived", all, nil)
		// every stream must still be up
		for _, cl := range all {
			if done, err, pan := cl.StreamErr(); done {
				if pan != "" {
					key := "stream-handler-panic:" + vh.TopIstioFrame(pan)
					if st.id != "" {
						key = w.pfx(propKey) + ":" + key
					}
					c.Violation(key, fmt.Sprintf("server stream handler of %s panicked: %s", cl.Name, firstLine(pan)), map[string]any{"history": histText(hist, bi+1)})
				} else {
					c.Inconclusive(fmt.Sprintf("stream of %s ended: %v", cl.Name, err))
				}
				return
			}
		}
		if c03 {
			// first what every pair holds NOW, then the triage (its forced pushes repair all clients at once)
			type pairDiff struct {
				pi     int
				hs, hd map[string]map[string]*anypb.Any
				diffs  []diff
			}
			var pds []pairDiff
			collect := func(count bool) bool {
				pds = nil
				for pi := range proxies {
					if w.delta[pi] == nil {
						continue
					}
					hs, ok := w.sotwView(w.a, pi)
					if !ok {
						c.Inconclusive("fresh SotW client on the same server did not quiesce")
						return false
					}
					hd := w.delta[pi].Snapshot()
					if count {
						for _, m := range hs {
							c.Count("resources_compared", len(m))
						}
						if w.sotw[pi] == nil {
							c.Count("delta_vs_fresh_sotw_on_same_server", 1)
						}
					}
					if diffs := compare(hd, hs, "delta", "sotw"); len(diffs) > 0 {
						pds = append(pds, pairDiff{pi, hs, hd, diffs})
					}
				}
				return true
			}
			if !collect(true) {
				return
			}
			if len(pds) > 0 {
				// persistence re-check (see regrace): no input, no forced push; both twins are read again
				firstSet := map[string]bool{}
				for _, pd := range pds {
					for _, d := range pd.diffs {
						firstSet[fmt.Sprint(pd.pi, " ", d)] = true
					}
				}
				if !regrace(w.a) {
					c.Inconclusive("persistence re-check did not quiesce")
					return
				}
				if !collect(false) {
					return
				}
				for _, pd := range pds {
					for _, d := range pd.diffs {
						delete(firstSet, fmt.Sprint(pd.pi, " ", d))
					}
				}
				if len(firstSet) > 0 {
					w.premature("c03:delta-vs-sotw", len(firstSet))
				}
				for _, pd := range pds {
					c.Count("mismatches_before_triage", len(pd.diffs))
				}
			}
			if len(pds) > 0 {
				if !forcePush(w.a) {
					c.Inconclusive("forced push did not quiesce")
					return
				}
				s2s := map[int]map[string]map[string]*anypb.Any{}
				for _, pd := range pds {
					v, ok := w.sotwView(w.a, pd.pi)
					if !ok {
						c.Inconclusive("fresh SotW client on the same server did not quiesce")
						return
					}
					s2s[pd.pi] = v
				}
				if !forcePush(w.a) {
					c.Inconclusive("forced push did not quiesce")
					return
				}
				for _, pd := range pds {
					pi, hs, hd := pd.pi, pd.hs, pd.hd
					s2 := s2s[pi]
					s3, ok3 := w.sotwView(w.a, pi)
					if !ok3 {
						c.Inconclusive("fresh SotW client on the same server did not quiesce")
						return
					}
					for _, d := range pd.diffs {
						x, y := s2[d.Type][d.Name], s3[d.Type][d.Name]
						if (x == nil) != (y == nil) || (x != nil && !proto.Equal(canon(d.Type, x), canon(d.Type, y))) {
							c.Count("excluded_nondeterministic", 1)
							continue
						}
						cause := w.a.causeOf(proxies[pi], d.Type, d.Name)
						if (cause == "unknown" || strings.HasPrefix(cause, "host-")) && w.sidecarKeyDropped(w.a, proxies[pi]) {
							cause = "sidecar-key-dropped-by-proxy-dependency-filter"
						}
						if cause == "unknown" && (d.Type == envoyclient.LDS || d.Type == envoyclient.RDS) {
							// as in the C01 oracle: a listener / route that differs in the clusters it references, for a hostname whose
							// service key the per-proxy dependency filter dropped (the known defect)
							for _, h := range hostsReferencedByOneOnly(resourceFullText(hd[d.Type][d.Name]), resourceFullText(hs[d.Type][d.Name])) {
								if w.a.pushes.serviceKeyDropped(proxies[pi].name+"."+proxies[pi].ns, h) {
									cause = causeKeyDropped
									break
								}
							}
						}
						ckey := "cause=" + cause
						if cause == "unknown" {
							ckey += ":changed=" + kindsOf(b)
						}
						if st.id != "" {
							// the same root-cause recognisers as the C01 oracle of these strata (proxy state, export, two registries on
							// one hostname, headless TLS inference, SAN-only shape)
							class := ""
							if _, _, h, _ := model.ParseSubsetKey(d.Name); h != "" {
								class = w.hostInfo(string(h))
							}
							cause = w.refineCause(cause, proxies[pi], d.Type, d.Name, d, class, hd[d.Type][d.Name], hs[d.Type][d.Name])
							ckey = "cause=" + cause // volatile detail (changed kinds) stays in the message
						}
						c.Violation(fmt.Sprintf("%s:delta-differs-from-sotw:%s:%s:%s:proxy=%s", w.pfx("c03"), ckey, whatKey2(d.What), envoyclient.Short(d.Type), proxies[pi].ptype),
							fmt.Sprintf("after batch %d (%s) the delta client of %s and its SotW twin disagree: %s; diff: %s", bi, kindsOf(b), proxies[pi].name, d,
								firstTextDiff(resourceText(d.Type, hd[d.Type][d.Name]), resourceText(d.Type, hs[d.Type][d.Name]))),
							map[string]any{"proxy": proxies[pi].name, "resource": d.String(), "history": histText(hist, bi+1),
								"pushlog": w.a.pushes.tail(proxies[pi].name+"."+proxies[pi].ns, 12)})
					}
				}
			}
			for _, cl := range nonNil(w.delta) {
				for _, v := range cl.ViolationsCopy() {
					c.Violation(w.pfx("c03")+":delta-protocol-sanity", cl.Name+": "+v, map[string]any{"history": histText(hist, bi+1)})
				}
			}
		}
		if c01 && checkpoints[bi] {
			// were pushes skipped or narrowed since the previous checkpoint?
			sk, nw, _ := w.a.gen.totals()
			skipped := sk > prevSkip || nw > prevNarrow
			c.Count("generator_calls_skipped", sk-prevSkip)
			c.Count("generator_calls_narrowed", nw-prevNarrow)
			prevSkip, prevNarrow = sk, nw
			for pi := range proxies {
				for t, m := range w.primary(pi).Snapshot() {
					c.Max("held_"+envoyclient.Short(t), len(m))
				}
			}
			for pi := range proxies {
				cur := w.primary(pi).Snapshot()
				if len(compare(cur, prevState[pi], "now", "before")) > 0 {
					changed = true
				}
				prevState[pi] = cur
			}
			info := fmt.Sprintf("checkpoint after batch %d of %s/%d (kinds changed since previous checkpoint: %s)", bi, st.histCase, i, w.changedKinds())
			n1, ok := w.checkAgainstFresh(w.a, all, allPidx, w.pfx("c01"), info)
			if !ok {
				return
			}
			c.Count("resources_compared", n1)
			c.Count("checkpoints", 1)
			// evaluations count checkpoints (the unit distinct_nontrivial counts); the case itself was counted once
			if nCheckpoints++; nCheckpoints > 1 {
				c.AddEvaluations(1)
			}
			if st.id != "" {
				c.Count(st.id+"_checkpoints", 1)
			}
			if skipped {
				c.Count("checkpoints_with_skipped_or_narrowed_pushes", 1)
			}
			if skipped && changed {
				c.Nontrivial(st.id + histHash(hist) + fmt.Sprint(bi))
				if st.id != "" {
					c.Count(st.id+"_nontrivial", 1)
				}
			}
			w.kindsCP = map[string]bool{}
			w.touchedUnexported = false
		}
	}
	if sumStats(w.delta, "delta_responses_with_removals") > 0 {
		removalsSeen = true
		c.Count("histories_with_delta_removals", 1)
	}
	c.Count("delta_responses_with_removals", sumStats(w.delta, "delta_responses_with_removals"))
	c.Count("histories", 1)
	if st.id != "" {
		c.Count(st.id+"_histories", 1)
	}
	for _, t := range []string{"CDS", "EDS", "LDS", "RDS"} {
		c.Count("responses_"+t, sumStats(w.sotw, "responses_"+t)+sumStats(w.delta, "responses_"+t))
	}
	c.Count("subscription_changes", sumStats(w.sotw, "subscription_changes_EDS")+sumStats(w.sotw, "subscription_changes_RDS"))
	if st.id != "" {
		w.a.pushEvidence(c, st.id)
	}
	if c03 {
		// non-trivial for C03: removals seen and something changed
		any := false
		for pi := range proxies {
			if len(compare(w.primary(pi).Snapshot(), prevState[pi], "now", "before")) > 0 {
				any = true
			}
		}
		if removalsSeen && any {
			c.Nontrivial(st.id + histHash(hist))
			if st.id != "" {
				c.Count(st.id+"_nontrivial", 1)
			}
		}
	}
	if i < 2 {
		nc, _ := w.clients()
		c.Sample(map[string]any{"stratum": st.sw, "history": histText(hist, len(hist)), "clients": len(nc)})
	}
}

func whatKey2(w string) string {
	switch {
	case strings.Contains(w, "delta only"):
		return "extra-in-delta"
	case strings.Contains(w, "sotw only"):
		return "missing-in-delta"
	}
	return "content"
}

func kindsOf(b []op) string {
	m := map[string]bool{}
	for _, o := range b {
		m[o.Kind.Kind] = true
	}
	ks := make([]string, 0, len(m))
	for k := range m {
		ks = append(ks, k)
	}
	sort.Strings(ks)
	return strings.Join(ks, "+")
}

func sumResponses(w *world) int {
	n := 0
	for _, t := range []string{"CDS", "EDS", "LDS", "RDS"} {
		n += sumStats(w.sotw, "responses_"+t) + sumStats(w.delta, "responses_"+t)
	}
	return n
}

var _ = rand.Int
