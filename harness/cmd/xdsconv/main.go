// Engine xdsconv: properties C01 (xDS converges to the current config whatever the history),
// C03 (delta xDS == state-of-the-world xDS) and C05 (a reconnecting proxy is fully
// resynchronised). Long-lived Envoy client models on the in-process stream shim follow a
// PRNG history applied through the real config store; at quiescent points (process-wide
// logical idleness) their state is compared with fresh clients of a second control plane
// built from the final state alone, with each other (delta vs SotW), and after enumerated
// stream cuts and reconnects.
package main

import (
	"fmt"
	"math/rand"
	"os"
	"sort"
	"strings"
	"sync"
	"time"

	corev3 "github.com/envoyproxy/go-control-plane/envoy/config/core/v3"
	endpointv3 "github.com/envoyproxy/go-control-plane/envoy/config/endpoint/v3"
	"google.golang.org/protobuf/encoding/prototext"
	"google.golang.org/protobuf/proto"
	"google.golang.org/protobuf/types/known/anypb"

	"istio.io/istio/pilot/pkg/model"
	"istio.io/istio/pilot/pkg/xds"
	xdsfake "istio.io/istio/pilot/test/xds"
	"istio.io/istio/pkg/config"
	"verifharness/internal/envoyclient"
	"verifharness/internal/idle"
	"verifharness/internal/quiet"
	"verifharness/internal/vh"
	"verifharness/internal/xdsshim"
)

func prop(id, rule string, run func(c *vh.Ctx)) vh.Prop {
	return vh.Prop{
		ID: id, Level: map[string]string{"C01": "exploration", "C03": "exploration", "C05": "fault_enumeration"}[id],
		Rule: rule,
		Assumptions: []string{
			"client models (SotW and delta ADS, EDS/RDS subscriptions derived from held clusters/listeners, ACK of every response) are our reading of the xDS protocol as Envoy implements it",
			"quiescence = every goroutine of the process parked on a channel/select/cond AND accepted == committed updates AND push queue empty, observed twice (internal/idle); a watchdog firing makes the case inconclusive",
			"the fresh control plane is a second FakeDiscoveryServer built from a snapshot of the first one's config store (same objects, same creation timestamps)",
			"comparison is proto.Equal per resource name; inside a ClusterLoadAssignment lb_endpoints and localities are compared as sets; a resource that the same server regenerates differently without any change (nondeterminism, property C17) is excluded and counted",
		},
		Anchors:       []string{"pilot/pkg/xds/", "pkg/xds/server.go"},
		MinNontrivial: func(t string) int { return map[string]int{"quick": 12, "thorough": 150}[t] },
		Batches:       func(t string) int { return map[string]int{"quick": 6, "thorough": 14}[t] },
		Parallel:      func(t string) int { return map[string]int{"quick": 6, "thorough": 14}[t] },
		TimeoutSec:    func(t string) int { return map[string]int{"quick": 1200, "thorough": 5400}[t] },
		// no connection rate limiting: its timer waits would look like idleness
		Env: []string{"PILOT_MAX_REQUESTS_PER_SECOND=1000000000000"},
		Run: func(c *vh.Ctx) { quiet.Logs("error"); run(c) },
	}
}

func main() {
	vh.Main(
		prop("C01", "PRNG histories (create/update/no-op update/delete over ServiceEntry, WorkloadEntry, VirtualService, DestinationRule, Sidecar, Gateway, PeerAuthentication, RequestAuthentication, AuthorizationPolicy, EnvoyFilter, Telemetry, WasmPlugin; every object passes the real validator) "+
			"applied in PRNG batches through the real config store to server A with long-lived SotW and delta Envoy clients for 4 proxies (3 sidecars with/without selector labels, 1 router). At PRNG checkpoints and at the end: quiesce, snapshot A's store, build server B from it, connect fresh clients, compare per (proxy, type, name). "+
			"A mismatch is triaged: forced push on A repeated (resource changes without config change => nondeterministic, excluded), equal after forced push => stale (violation), else second fresh server B' decides instance nondeterminism (excluded) vs history dependence (violation). "+
			"Non-trivial: a checkpoint where >=1 push was skipped or narrowed for some client since the previous checkpoint (fewer responses than pushes) and >=1 resource changed for some client. Distinct by hash of the history.", runC01),
		prop("C03", "Same server, histories and clients as C01; after EVERY batch the delta client and the SotW client of each proxy are compared per (type, name) for CDS, EDS, LDS, RDS; the delta client also checks every response for protocol sanity. "+
			"Non-trivial: a history during which >=1 delta response carried removed_resources and >=1 resource changed. Distinct by hash of the history.", runC03),
		prop("C05", "For each history and each client: enumerated cut points (after the n-th response of the initial sync, n=1..8, with and without ACK of that response; send failure on the n-th send; cut at every batch boundary) x {reconnect to the same server, reconnect everybody to a restarted server built from the current state} x {SotW, delta} x {cancel, EOF}; "+
			"a PRNG subset of the remaining batches is applied while the client is away; after reconnect with retained versions/nonces/names and the rest of the history the C01 oracle (fresh control plane) decides, and every re-opened type must have been answered on the new stream. "+
			"Non-trivial: a scenario in which the client missed >=1 change while disconnected and held >=1 resource at the cut. Distinct by (history, scenario).", runC05),
	)
}

// ---------------------------------------------------------------------------------------
// proxies

type proxySpec struct {
	name, ns, ptype, ip string
	labels              map[string]string
}

var proxies = []proxySpec{
	{"client-a", "ns1", "sidecar", "10.50.0.1", map[string]string{"app": "client-a"}},
	{"client-b", "ns2", "sidecar", "10.50.0.2", map[string]string{"app": "client-b"}},
	{"plain", "ns3", "sidecar", "10.50.0.3", nil},
	{"igw", "istio-system", "router", "10.50.0.4", map[string]string{"istio": "ingressgateway"}},
}

func newClient(p proxySpec, delta bool, suffix string) *envoyclient.Client {
	meta := map[string]any{"ISTIO_VERSION": "1.28.0", "CLUSTER_ID": "Kubernetes"}
	loc := map[string]string{"client-a": "r1/z1", "client-b": "r2/z1"}[p.name]
	if len(p.labels) > 0 {
		l := map[string]any{}
		for k, v := range p.labels {
			l[k] = v
		}
		meta["LABELS"] = l
	}
	kind := "sotw"
	if delta {
		kind = "delta"
	}
	n := xdsshim.Node(p.ptype, p.ip, p.name, p.ns, meta)
	if loc != "" {
		parts := strings.Split(loc, "/")
		n.Locality = &corev3.Locality{Region: parts[0], Zone: parts[1]}
	}
	return envoyclient.New(p.name+"/"+kind+suffix, n, delta)
}

// ---------------------------------------------------------------------------------------
// servers

type server struct {
	f      *vh.F
	srv    *xdsfake.FakeDiscoveryServer
	gen    *genStats
	pushes *pushLog
}

// pushLog records, per proxy, what each push request looked like before and after the
// server's own per-proxy dependency filtering (public ProxyNeedsPush hook point).
type pushEntry struct {
	in, out []string
	forced  bool
	pushed  bool
}

type pushLog struct {
	mu sync.Mutex
	by map[string][]pushEntry
}

func (p *pushLog) add(id string, e pushEntry) {
	p.mu.Lock()
	p.by[id] = append(p.by[id], e)
	if len(p.by[id]) > 400 {
		p.by[id] = p.by[id][200:]
	}
	p.mu.Unlock()
}

// serviceKeyDropped reports whether some push for the proxy carried the ServiceEntry key of the
// hostname while the request handed to the generators did not (dependency filter dropped it).
func (p *pushLog) serviceKeyDropped(proxyID, hostname string) bool {
	p.mu.Lock()
	defer p.mu.Unlock()
	for _, e := range p.by[proxyID] {
		for _, k := range e.in {
			if strings.HasPrefix(k, "ServiceEntry/") && strings.HasSuffix(k, "/"+hostname) {
				kept := false
				for _, o := range e.out {
					if o == k {
						kept = true
					}
				}
				if !kept {
					return true
				}
			}
		}
	}
	return false
}

func keyStrings(req *model.PushRequest) []string {
	if req == nil {
		return nil
	}
	ks := make([]string, 0, len(req.ConfigsUpdated))
	for k := range req.ConfigsUpdated {
		ks = append(ks, k.String())
	}
	sort.Strings(ks)
	return ks
}

// causeOf classifies a resource a delta client kept although it ceased to exist.
func (s *server) causeOf(p proxySpec, t, name string) string {
	if t == envoyclient.CDS || t == envoyclient.EDS {
		_, _, h, _ := model.ParseSubsetKey(name)
		if h != "" && s.pushes.serviceKeyDropped(p.name+"."+p.ns, string(h)) {
			return "service-key-dropped-by-proxy-dependency-filter"
		}
	}
	return "unknown"
}

func newServer(cfgs []config.Config, debounce time.Duration) *server {
	f := vh.NewF()
	srv := xdsfake.NewFakeDiscoveryServer(f, xdsfake.FakeOptions{Configs: cfgs, DebounceTime: debounce})
	pl := &pushLog{by: map[string][]pushEntry{}}
	trace := os.Getenv("XDSCONV_TRACE") != ""
	srv.Discovery.ProxyNeedsPush = func(proxy *model.Proxy, req *model.PushRequest) (*model.PushRequest, bool) {
		in := keyStrings(req)
		r2, ok := xds.DefaultProxyNeedsPush(proxy, req)
		var out []string
		if ok {
			out = keyStrings(r2)
		}
		pl.add(proxy.ID, pushEntry{in: in, out: out, forced: req.Forced, pushed: ok})
		if trace {
			fmt.Printf("TRACE push proxy=%s forced=%v keys=%v kept=%v needsPush=%v\n", proxy.ID, req.Forced, in, out, ok)
		}
		return r2, ok
	}
	return &server{f: f, srv: srv, gen: wrapGenerators(srv.Discovery), pushes: pl}
}

func (s *server) idleCond() bool {
	ds := s.srv.Discovery
	p, q := ds.PushQueueStateForVerif()
	return ds.InboundUpdates.Load() == ds.CommittedUpdates.Load() && p == 0 && q == 0
}

func quiesce(servers ...*server) bool {
	ok, why := idle.Wait(func() bool {
		for _, s := range servers {
			if s != nil && !s.idleCond() {
				return false
			}
		}
		return true
	}, 90*time.Second)
	if !ok {
		fmt.Println("QUIESCE-LOST", why)
	}
	return ok
}

func firstLine(s string) string {
	if i := strings.IndexByte(s, '\n'); i >= 0 {
		return s[:i]
	}
	return s
}

func (s *server) apply(o op) error {
	st := s.srv.Store()
	switch o.Verb {
	case "create":
		_, err := st.Create(toConfig(o))
		return err
	case "update", "noop-update":
		_, err := st.Update(toConfig(o))
		return err
	case "delete":
		return st.Delete(o.Kind, o.Name, o.NS, nil)
	}
	return nil
}

func (s *server) snapshot() []config.Config {
	var out []config.Config
	for _, k := range allKinds {
		l := s.srv.Store().List(k, "")
		sort.Slice(l, func(i, j int) bool { return l[i].Namespace+"/"+l[i].Name < l[j].Namespace+"/"+l[j].Name })
		for _, c := range l {
			c = c.DeepCopy()
			c.ResourceVersion = ""
			out = append(out, c)
		}
	}
	return out
}

// ---------------------------------------------------------------------------------------
// comparison

func canon(t string, a *anypb.Any) proto.Message {
	if t == envoyclient.EDS {
		m := &endpointv3.ClusterLoadAssignment{}
		if proto.Unmarshal(a.Value, m) != nil {
			return a
		}
		for _, l := range m.Endpoints {
			sort.SliceStable(l.LbEndpoints, func(i, j int) bool { return epKey(l.LbEndpoints[i]) < epKey(l.LbEndpoints[j]) })
		}
		sort.SliceStable(m.Endpoints, func(i, j int) bool { return locKey(m.Endpoints[i]) < locKey(m.Endpoints[j]) })
		return m
	}
	return a
}

func epKey(e *endpointv3.LbEndpoint) string {
	sa := e.GetEndpoint().GetAddress().GetSocketAddress()
	return fmt.Sprintf("%s:%d/%s", sa.GetAddress(), sa.GetPortValue(), e.GetEndpoint().GetAddress().GetPipe().GetPath())
}

func locKey(l *endpointv3.LocalityLbEndpoints) string {
	return fmt.Sprintf("%s/%s/%s/%d", l.GetLocality().GetRegion(), l.GetLocality().GetZone(), l.GetLocality().GetSubZone(), l.GetPriority())
}

type diff struct {
	Type, Name, What string
}

func (d diff) String() string { return envoyclient.Short(d.Type) + " " + d.Name + ": " + d.What }

// compare returns the differences between two held states (type -> name -> resource).
func compare(a, b map[string]map[string]*anypb.Any, la, lb string) []diff {
	var out []diff
	for _, t := range envoyclient.Types {
		names := map[string]bool{}
		for n := range a[t] {
			names[n] = true
		}
		for n := range b[t] {
			names[n] = true
		}
		sorted := make([]string, 0, len(names))
		for n := range names {
			sorted = append(sorted, n)
		}
		sort.Strings(sorted)
		for _, n := range sorted {
			ra, oka := a[t][n]
			rb, okb := b[t][n]
			switch {
			case !oka:
				out = append(out, diff{t, n, "held by " + lb + " only"})
			case !okb:
				out = append(out, diff{t, n, "held by " + la + " only"})
			case !proto.Equal(canon(t, ra), canon(t, rb)):
				out = append(out, diff{t, n, "content differs"})
			}
		}
	}
	return out
}

func resourceText(t string, a *anypb.Any) string {
	if a == nil {
		return "<absent>"
	}
	m, err := a.UnmarshalNew()
	if err != nil {
		return fmt.Sprintf("<%d bytes>", len(a.Value))
	}
	s := prototext.MarshalOptions{Multiline: false}.Format(m)
	if len(s) > 6000 {
		s = s[:6000] + "…"
	}
	return s
}

// firstTextDiff gives a short window around the first difference of two texts.
func firstTextDiff(x, y string) string {
	i := 0
	for i < len(x) && i < len(y) && x[i] == y[i] {
		i++
	}
	lo := i - 120
	if lo < 0 {
		lo = 0
	}
	hx, hy := i+160, i+160
	if hx > len(x) {
		hx = len(x)
	}
	if hy > len(y) {
		hy = len(y)
	}
	return fmt.Sprintf("…%s <<<A|B>>> …%s", x[lo:hx], y[lo:hy])
}

// ---------------------------------------------------------------------------------------
// world under test: server A with its long-lived clients

type world struct {
	c        *vh.Ctx
	a        *server
	sotw     []*envoyclient.Client
	delta    []*envoyclient.Client
	kindsCP  map[string]bool // kinds changed since the last checkpoint
	hist     [][]op
	applied  int               // batches applied
	scenInfo map[string]string // c05: client name -> scenario text
}

func newWorld(c *vh.Ctx, debounce time.Duration) *world {
	w := &world{c: c, a: newServer(nil, debounce), kindsCP: map[string]bool{}}
	for _, p := range proxies {
		s, d := newClient(p, false, ""), newClient(p, true, "")
		w.sotw = append(w.sotw, s)
		w.delta = append(w.delta, d)
		s.Connect(w.a.srv.Discovery, envoyclient.Fault{}, false)
		d.Connect(w.a.srv.Discovery, envoyclient.Fault{}, false)
	}
	return w
}

func (w *world) close() {
	for _, cl := range append(append([]*envoyclient.Client{}, w.sotw...), w.delta...) {
		cl.Disconnect(false)
	}
	w.a.f.Done()
}

func (w *world) applyBatch(s *server, b []op) {
	for _, o := range b {
		if err := s.apply(o); err != nil {
			vh.Abort("apply %s: %v", o, err)
		}
		w.kindsCP[o.Kind.Kind] = true
	}
}

func (w *world) changedKinds() string {
	ks := make([]string, 0, len(w.kindsCP))
	for k := range w.kindsCP {
		ks = append(ks, k)
	}
	sort.Strings(ks)
	return strings.Join(ks, "+")
}

// freshStates builds a server from cfgs, connects fresh SotW clients for all proxies and
// returns their held state once quiescent. The server is torn down before returning.
func freshStates(cfgs []config.Config, debounce time.Duration, also *server) ([]map[string]map[string]*anypb.Any, bool) {
	b := newServer(cfgs, debounce)
	defer b.f.Done()
	var cls []*envoyclient.Client
	for _, p := range proxies {
		cl := newClient(p, false, "/fresh")
		cl.Connect(b.srv.Discovery, envoyclient.Fault{}, false)
		cls = append(cls, cl)
	}
	ok := quiesce(b, also)
	var out []map[string]map[string]*anypb.Any
	for _, cl := range cls {
		if done, err, pan := cl.StreamErr(); done {
			fmt.Printf("FRESH-STREAM-ENDED %s err=%v panic=%s\n", cl.Name, err, firstLine(pan))
			ok = false
		}
		snap := cl.Snapshot()
		if resp, _ := cl.ResponsesOnStream(); resp[envoyclient.CDS] == 0 || resp[envoyclient.LDS] == 0 {
			// a fresh client that has not been answered means the quiescence detector returned early
			ok = false
			_, opened := cl.ResponsesOnStream()
			fmt.Printf("FRESH-CLIENT-EMPTY %s responses=%v opened=%v connected=%v\n", cl.Name, resp, opened, cl.Connected())
		}
		out = append(out, snap)
		cl.Disconnect(false)
	}
	return out, ok
}

// forcePush makes server s regenerate everything for everybody.
func forcePush(s *server) bool {
	s.srv.Discovery.ConfigUpdate(&model.PushRequest{Forced: true, Reason: model.NewReasonStats(model.DebugTrigger)})
	return quiesce(s)
}

// checkAgainstFresh is the C01 oracle for the given long-lived clients of server s.
// prefix distinguishes the caller (c01 / c05) in violation keys.
func (w *world) checkAgainstFresh(s *server, clients []*envoyclient.Client, pidx []int, prefix, ctxInfo string) (compared int, ok bool) {
	c := w.c
	cfgs := s.snapshot()
	fresh, okq := freshStates(cfgs, 2*time.Millisecond, s)
	if !okq {
		c.Inconclusive("fresh server did not quiesce")
		return 0, false
	}
	var fresh2 []map[string]map[string]*anypb.Any
	for i, cl := range clients {
		held := cl.Snapshot()
		for _, m := range held {
			compared += len(m)
		}
		diffs := compare(held, fresh[pidx[i]], "long-lived", "fresh")
		if len(diffs) == 0 {
			continue
		}
		c.Count("mismatches_before_triage", len(diffs))
		// triage 1: does a forced push change the long-lived client's copy?
		if !forcePush(s) {
			c.Inconclusive("forced push did not quiesce")
			return compared, false
		}
		held2 := cl.Snapshot()
		if !forcePush(s) {
			c.Inconclusive("forced push did not quiesce")
			return compared, false
		}
		held3 := cl.Snapshot()
		svcKeyDropped := false
		for _, d := range diffs {
			if s.causeOf(proxies[pidx[i]], d.Type, d.Name) != "unknown" {
				svcKeyDropped = true
			}
		}
		for _, d := range diffs {
			t, n := d.Type, d.Name
			r1, r2, r3, rf := held[t][n], held2[t][n], held3[t][n], fresh[pidx[i]][t][n]
			same := func(x, y *anypb.Any) bool {
				if x == nil || y == nil {
					return x == nil && y == nil
				}
				return proto.Equal(canon(t, x), canon(t, y))
			}
			if !same(r2, r3) {
				c.Count("excluded_nondeterministic", 1)
				c.SetAdd("excluded_nondeterministic_resources", envoyclient.Short(t))
				continue
			}
			if same(r2, rf) {
				// the client held something else until a forced push made the server resend it
				cause := s.causeOf(proxies[pidx[i]], t, n)
				if cause == "unknown" && svcKeyDropped && (t == envoyclient.LDS || t == envoyclient.RDS) {
					cause = "co-occurs-with-service-key-dropped-by-proxy-dependency-filter"
				}
				ckey := "cause=" + cause
				if cause == "unknown" {
					ckey += ":changed=" + w.changedKinds()
				}
				c.Violation(fmt.Sprintf("%s:stale-until-forced-push:%s:%s:%s:proxy=%s:client=%s", prefix, ckey, whatKey(d.What), envoyclient.Short(t), proxies[pidx[i]].ptype, protoOf(cl)),
					fmt.Sprintf("%s client %s: %s; a forced push brings it to the fresh state, so a push that should have carried it was skipped or narrowed. %s. diff: %s",
						prefix, cl.Name, d, ctxInfo, firstTextDiff(resourceText(t, r1), resourceText(t, rf))),
					map[string]any{"client": cl.Name, "scenario": w.scenInfo[cl.Name], "resource": d.String(), "history": histText(w.hist, w.applied), "context": ctxInfo})
				continue
			}
			// still different from the fresh server after forced pushes: history dependence or instance nondeterminism?
			if fresh2 == nil {
				var ok2 bool
				fresh2, ok2 = freshStates(cfgs, 2*time.Millisecond, s)
				if !ok2 {
					c.Inconclusive("second fresh server did not quiesce")
					return compared, false
				}
			}
			if !same(rf, fresh2[pidx[i]][t][n]) {
				c.Count("excluded_instance_nondeterministic", 1)
				c.SetAdd("excluded_nondeterministic_resources", envoyclient.Short(t)+"(instance)")
				c.SetAdd("excluded_instance_nondeterministic_detail", envoyclient.Short(t)+" "+n+": "+firstTextDiff(resourceText(t, rf), resourceText(t, fresh2[pidx[i]][t][n])))
				continue
			}
			c.Violation(fmt.Sprintf("%s:history-dependent:%s:proxy=%s:%s", prefix, envoyclient.Short(t), proxies[pidx[i]].ptype, whatKey(d.What)),
				fmt.Sprintf("%s client %s: %s even after forced pushes, while two fresh control planes built from the final state agree with each other. %s. diff: %s",
					prefix, cl.Name, d, ctxInfo, firstTextDiff(resourceText(t, r2), resourceText(t, rf))),
				map[string]any{"client": cl.Name, "resource": d.String(), "history": histText(w.hist, w.applied), "context": ctxInfo})
		}
	}
	return compared, true
}

func protoOf(cl *envoyclient.Client) string {
	if cl.Delta {
		return "delta"
	}
	return "sotw"
}

func whatKey(w string) string {
	switch {
	case strings.Contains(w, "long-lived only"):
		return "extra"
	case strings.Contains(w, "fresh only"):
		return "missing"
	}
	return "content"
}

func histText(h [][]op, upto int) []string {
	var out []string
	for i, b := range h {
		if i >= upto {
			break
		}
		var parts []string
		for _, o := range b {
			s := o.String()
			if o.Spec != nil {
				if m, ok := o.Spec.(proto.Message); ok {
					txt := prototext.MarshalOptions{Multiline: false}.Format(m)
					if len(txt) > 300 {
						txt = txt[:300] + "…"
					}
					s += " {" + txt + "}"
				}
			}
			parts = append(parts, s)
		}
		out = append(out, fmt.Sprintf("batch %d: %s", i, strings.Join(parts, " ; ")))
	}
	return out
}

func allIdx() []int {
	out := make([]int, len(proxies))
	for i := range out {
		out[i] = i
	}
	return out
}

func sumStats(cls []*envoyclient.Client, key string) int {
	n := 0
	for _, cl := range cls {
		n += cl.StatsCopy()[key]
	}
	return n
}

func histHash(h [][]op) string {
	var parts []string
	for _, b := range h {
		for _, o := range b {
			parts = append(parts, o.String())
		}
		parts = append(parts, "|")
	}
	return vh.Hash(parts)
}

// ---------------------------------------------------------------------------------------
// C01 and C03 share the driver; the oracle that is enabled differs.

func runC01(c *vh.Ctx) { runHistories(c, true, false) }
func runC03(c *vh.Ctx) { runHistories(c, false, true) }

func runHistories(c *vh.Ctx, c01, c03 bool) {
	n := c.N(72, 600)
	for i := 0; i < n; i++ {
		if !c.Mine(i) {
			continue
		}
		c.Case(fmt.Sprintf("history/%d", i), func() {
			r := c.Rng("history", i)
			nops := 12 + r.Intn(c.N(20, 50))
			hist := genHistory(r, nops)
			w := newWorld(c, time.Duration(1+r.Intn(5))*time.Millisecond)
			defer w.close()
			w.hist = hist
			if !quiesce(w.a) {
				c.Inconclusive("initial sync did not quiesce")
				return
			}
			// a checkpoint after every batch: a stale resource is often repaired by the next unrelated push
			checkpoints := map[int]bool{}
			for k := range hist {
				checkpoints[k] = true
			}
			removalsSeen, changed := false, false
			prevSkip, prevNarrow, _ := w.a.gen.totals()
			var prevState []map[string]map[string]*anypb.Any
			for _, cl := range w.sotw {
				prevState = append(prevState, cl.Snapshot())
			}
			for bi, b := range hist {
				w.applyBatch(w.a, b)
				w.applied = bi + 1
				if !quiesce(w.a) {
					c.Inconclusive(fmt.Sprintf("batch %d did not quiesce", bi))
					return
				}
				c.Count("batches", 1)
				c.Count("ops", len(b))
				for _, cl := range w.sotw {
					for n := range cl.Snapshot()[envoyclient.CDS] {
						if parts := strings.Split(n, "|"); len(parts) == 4 && parts[2] != "" {
							c.Count("subset_clusters_held_observations", 1)
						}
					}
				}
				c.SetAdd("batch_sizes", fmt.Sprint(len(b)))
				for _, o := range b {
					c.SetAdd("op_kinds", o.Verb+" "+o.Kind.Kind)
				}
				// every stream must still be up
				for _, cl := range append(append([]*envoyclient.Client{}, w.sotw...), w.delta...) {
					if done, err, pan := cl.StreamErr(); done {
						if pan != "" {
							c.Violation("stream-handler-panic:"+vh.TopIstioFrame(pan), fmt.Sprintf("server stream handler of %s panicked: %s", cl.Name, firstLine(pan)), map[string]any{"history": histText(hist, bi+1)})
						} else {
							c.Inconclusive(fmt.Sprintf("stream of %s ended: %v", cl.Name, err))
						}
						return
					}
				}
				if c03 {
					for pi := range proxies {
						hs, hd := w.sotw[pi].Snapshot(), w.delta[pi].Snapshot()
						for _, m := range hs {
							c.Count("resources_compared", len(m))
						}
						diffs := compare(hd, hs, "delta", "sotw")
						if len(diffs) > 0 {
							c.Count("mismatches_before_triage", len(diffs))
							if !forcePush(w.a) {
								c.Inconclusive("forced push did not quiesce")
								return
							}
							s2 := w.sotw[pi].Snapshot()
							if !forcePush(w.a) {
								c.Inconclusive("forced push did not quiesce")
								return
							}
							s3 := w.sotw[pi].Snapshot()
							for _, d := range diffs {
								x, y := s2[d.Type][d.Name], s3[d.Type][d.Name]
								if (x == nil) != (y == nil) || (x != nil && !proto.Equal(canon(d.Type, x), canon(d.Type, y))) {
									c.Count("excluded_nondeterministic", 1)
									continue
								}
								cause := w.a.causeOf(proxies[pi], d.Type, d.Name)
								ckey := "cause=" + cause
								if cause == "unknown" {
									ckey += ":changed=" + kindsOf(b)
								}
								c.Violation(fmt.Sprintf("c03:delta-differs-from-sotw:%s:%s:%s:proxy=%s", ckey, whatKey2(d.What), envoyclient.Short(d.Type), proxies[pi].ptype),
									fmt.Sprintf("after batch %d the delta client of %s and its SotW twin disagree: %s; diff: %s", bi, proxies[pi].name, d,
										firstTextDiff(resourceText(d.Type, hd[d.Type][d.Name]), resourceText(d.Type, hs[d.Type][d.Name]))),
									map[string]any{"proxy": proxies[pi].name, "resource": d.String(), "history": histText(hist, bi+1)})
							}
						}
					}
					for _, cl := range w.delta {
						for _, v := range cl.ViolationsCopy() {
							c.Violation("c03:delta-protocol-sanity", cl.Name+": "+v, map[string]any{"history": histText(hist, bi+1)})
						}
					}
				}
				if c01 && checkpoints[bi] {
					// were pushes skipped or narrowed since the previous checkpoint?
					sk, nw, _ := w.a.gen.totals()
					skipped := sk > prevSkip || nw > prevNarrow
					c.Count("generator_calls_skipped", sk-prevSkip)
					c.Count("generator_calls_narrowed", nw-prevNarrow)
					prevSkip, prevNarrow = sk, nw
					for _, cl := range w.sotw {
						for t, m := range cl.Snapshot() {
							c.Max("held_"+envoyclient.Short(t), len(m))
						}
					}
					for pi, cl := range w.sotw {
						cur := cl.Snapshot()
						if len(compare(cur, prevState[pi], "now", "before")) > 0 {
							changed = true
						}
						prevState[pi] = cur
					}
					info := fmt.Sprintf("checkpoint after batch %d of history/%d (kinds changed since previous checkpoint: %s)", bi, i, w.changedKinds())
					both := append(append([]*envoyclient.Client{}, w.sotw...), w.delta...)
					n1, ok := w.checkAgainstFresh(w.a, both, append(allIdx(), allIdx()...), "c01", info)
					if !ok {
						return
					}
					c.Count("resources_compared", n1)
					c.Count("checkpoints", 1)
					if skipped {
						c.Count("checkpoints_with_skipped_or_narrowed_pushes", 1)
					}
					if skipped && changed {
						c.Nontrivial(histHash(hist) + fmt.Sprint(bi))
					}
					w.kindsCP = map[string]bool{}
				}
			}
			if sumStats(w.delta, "delta_responses_with_removals") > 0 {
				removalsSeen = true
				c.Count("histories_with_delta_removals", 1)
			}
			c.Count("delta_responses_with_removals", sumStats(w.delta, "delta_responses_with_removals"))
			c.Count("histories", 1)
			for _, t := range []string{"CDS", "EDS", "LDS", "RDS"} {
				c.Count("responses_"+t, sumStats(w.sotw, "responses_"+t)+sumStats(w.delta, "responses_"+t))
			}
			c.Count("subscription_changes", sumStats(w.sotw, "subscription_changes_EDS")+sumStats(w.sotw, "subscription_changes_RDS"))
			if c03 {
				// non-trivial for C03: removals seen and something changed
				any := false
				for pi, cl := range w.sotw {
					if len(compare(cl.Snapshot(), prevState[pi], "now", "before")) > 0 {
						any = true
					}
				}
				if removalsSeen && any {
					c.Nontrivial(histHash(hist))
				}
			}
			if i < 2 {
				c.Sample(map[string]any{"history": histText(hist, len(hist)), "clients": len(w.sotw) + len(w.delta)})
			}
		})
	}
}

func whatKey2(w string) string {
	switch {
	case strings.Contains(w, "delta only"):
		return "extra-in-delta"
	case strings.Contains(w, "sotw only"):
		return "missing-in-delta"
	}
	return "content"
}

func kindsOf(b []op) string {
	m := map[string]bool{}
	for _, o := range b {
		m[o.Kind.Kind] = true
	}
	ks := make([]string, 0, len(m))
	for k := range m {
		ks = append(ks, k)
	}
	sort.Strings(ks)
	return strings.Join(ks, "+")
}

func sumResponses(w *world) int {
	n := 0
	for _, t := range []string{"CDS", "EDS", "LDS", "RDS"} {
		n += sumStats(w.sotw, "responses_"+t) + sumStats(w.delta, "responses_"+t)
	}
	return n
}

var _ = rand.Int
