package main

import (
	"sync"

	"istio.io/istio/pilot/pkg/model"
	"istio.io/istio/pilot/pkg/xds"
	v3 "istio.io/istio/pilot/pkg/xds/v3"
)

// genStats records, per xDS type, how often a generator skipped a push (returned nothing) or
// narrowed it (returned fewer resources than the client watches). Generators is a public map;
// it is wrapped before any client connects.
type genStats struct {
	mu       sync.Mutex
	skipped  map[string]int
	narrowed map[string]int
	full     map[string]int
}

func (g *genStats) note(w *model.WatchedResource, req *model.PushRequest, res model.Resources) {
	if req == nil || req.IsRequest() {
		return
	}
	g.mu.Lock()
	defer g.mu.Unlock()
	t := v3.GetShortType(w.TypeUrl)
	switch {
	case res == nil:
		g.skipped[t]++
	case len(w.ResourceNames) > 0 && len(res) < len(w.ResourceNames):
		g.narrowed[t]++
	default:
		g.full[t]++
	}
}

func (g *genStats) totals() (skipped, narrowed, full int) {
	g.mu.Lock()
	defer g.mu.Unlock()
	for _, n := range g.skipped {
		skipped += n
	}
	for _, n := range g.narrowed {
		narrowed += n
	}
	for _, n := range g.full {
		full += n
	}
	return
}

type sotwWrap struct {
	g  model.XdsResourceGenerator
	st *genStats
}

func (w sotwWrap) Generate(proxy *model.Proxy, wr *model.WatchedResource, req *model.PushRequest) (model.Resources, model.XdsLogDetails, error) {
	res, ld, err := w.g.Generate(proxy, wr, req)
	w.st.note(wr, req, res)
	return res, ld, err
}

type deltaWrap struct {
	sotwWrap
	d model.XdsDeltaResourceGenerator
}

func (w deltaWrap) GenerateDeltas(proxy *model.Proxy, req *model.PushRequest, wr *model.WatchedResource) (model.Resources, model.DeletedResources, model.XdsLogDetails, bool, error) {
	res, del, ld, used, err := w.d.GenerateDeltas(proxy, req, wr)
	if res == nil && del != nil {
		w.st.note(wr, req, model.Resources{})
	} else {
		w.st.note(wr, req, res)
	}
	return res, del, ld, used, err
}

func wrapGenerators(ds *xds.DiscoveryServer) *genStats {
	st := &genStats{skipped: map[string]int{}, narrowed: map[string]int{}, full: map[string]int{}}
	for k, g := range ds.Generators {
		if d, ok := g.(model.XdsDeltaResourceGenerator); ok {
			ds.Generators[k] = deltaWrap{sotwWrap{g, st}, d}
		} else {
			ds.Generators[k] = sotwWrap{g, st}
		}
	}
	return st
}
