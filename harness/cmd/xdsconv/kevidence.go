package main

// kevidence.go: observability shared by strata K and Z — push-log classification and counters,
// short texts of Kubernetes objects for replay files, a development-time validation of the
// quiescence detector.

import (
	"fmt"
	"os"
	"reflect"
	"regexp"
	"runtime"
	"sort"
	"strings"
	"sync"
	"sync/atomic"
	"time"

	corev1 "k8s.io/api/core/v1"
	discoveryv1 "k8s.io/api/discovery/v1"
	kruntime "k8s.io/apimachinery/pkg/runtime"

	endpointv3 "github.com/envoyproxy/go-control-plane/envoy/config/endpoint/v3"
	"google.golang.org/protobuf/proto"
	"google.golang.org/protobuf/types/known/anypb"

	"istio.io/istio/pilot/pkg/model"
	"verifharness/internal/envoyclient"
	"verifharness/internal/vh"
	"verifharness/internal/ztunnelclient"
)

const causeKeyDropped = "service-key-dropped-by-proxy-dependency-filter"

// pushStats counts, per proxy, the push requests seen at the ProxyNeedsPush hook point.
type pushStats struct {
	endpointOnly, full, forced, dropped int
}

func classifyPush(in []string, forced bool) string {
	if forced {
		return "forced"
	}
	if len(in) == 0 {
		return "full"
	}
	for _, k := range in {
		if !strings.HasPrefix(k, "Endpoints/") {
			return "full"
		}
	}
	return "endpoint-only"
}

// tail returns the last n push-log entries of a proxy as text (for replay files).
func (p *pushLog) tail(proxyID string, n int) []string {
	p.mu.Lock()
	defer p.mu.Unlock()
	es := p.by[proxyID]
	if len(es) > n {
		es = es[len(es)-n:]
	}
	var out []string
	for _, e := range es {
		out = append(out, fmt.Sprintf("forced=%v proxy-update=%v keys=%v kept=%v pushed=%v service-targets=%v", e.forced, e.proxyUpdate, e.in, e.out, e.pushed, e.targets))
	}
	return out
}

// hostClass says how the hostname last reached the proxy's push requests: as a service key
// (full push), as an endpoint-only key, both in one merged request, or never.
func (p *pushLog) hostClass(proxyID, hostname string) string {
	p.mu.Lock()
	defer p.mu.Unlock()
	es := p.by[proxyID]
	for i := len(es) - 1; i >= 0; i-- {
		svc, eps := false, false
		for _, k := range es[i].in {
			if !strings.HasSuffix(k, "/"+hostname) {
				continue
			}
			switch {
			case strings.HasPrefix(k, "ServiceEntry/"):
				svc = true
			case strings.HasPrefix(k, "Endpoints/"):
				eps = true
			}
		}
		switch {
		case svc && eps:
			return "host-last-pushed-as-service+endpoints"
		case svc:
			return "host-last-pushed-as-service"
		case eps:
			return "host-last-pushed-as-endpoints-only"
		}
	}
	return "host-never-pushed"
}

// ownServiceKeyDropped reports whether some push request carried the service key of a hostname that was among
// the proxy's service targets at the previous request but not any more at this one, and the per-proxy
// dependency filter dropped that key: the proxy's inbound configuration for the service it just left is then
// not regenerated.
func (p *pushLog) ownServiceKeyDropped(proxyID string) bool {
	p.mu.Lock()
	defer p.mu.Unlock()
	es := p.by[proxyID]
	has := func(l []string, x string) bool {
		for _, y := range l {
			if y == x {
				return true
			}
		}
		return false
	}
	for i := 1; i < len(es); i++ {
		for _, k := range es[i].in {
			if !strings.HasPrefix(k, "ServiceEntry/") || has(es[i].out, k) {
				continue
			}
			h := k[strings.LastIndexByte(k, '/')+1:]
			if has(es[i-1].targets, h) && !has(es[i].targets, h) {
				return true
			}
		}
	}
	return false
}

// endpointOnlyPushForOwnService reports whether the proxy was handed a non-forced request that carries the Endpoints key
// of a hostname among its service targets (at that request or at the one before) without the service key of that
// hostname. Which services a proxy is a target of also depends on EndpointSlice membership, but a request with only the
// Endpoints key of the service either does not refresh the service targets at all (no service key of the proxy's
// namespace in the unfiltered request) or refreshes them without any generator regenerating the inbound clusters and
// listeners (CDS and LDS skip kind Endpoints).
func (p *pushLog) endpointOnlyPushForOwnService(proxyID string) bool {
	p.mu.Lock()
	defer p.mu.Unlock()
	es := p.by[proxyID]
	for i, e := range es {
		if e.forced || !e.pushed {
			continue
		}
		targets := append([]string(nil), e.targets...)
		if i > 0 {
			targets = append(targets, es[i-1].targets...)
		}
		for _, k := range e.out {
			if !strings.HasPrefix(k, "Endpoints/") {
				continue
			}
			h := k[strings.LastIndexByte(k, '/')+1:]
			own := false
			for _, t := range targets {
				if t == h {
					own = true
				}
			}
			if !own {
				continue
			}
			withService := false
			for _, k2 := range e.out {
				if strings.HasPrefix(k2, "ServiceEntry/") && strings.HasSuffix(k2, "/"+h) {
					withService = true
				}
			}
			if !withService {
				return true
			}
		}
	}
	return false
}

// forcedMergedIntoEndpointsOnly reports whether the proxy saw a FORCED request whose keys are Endpoints only: a forced
// request (ProxyUpdate after a pod label change) merged into a pending endpoint-only request; pushConnection then
// skips the recomputation of the proxy state.
func (p *pushLog) forcedMergedIntoEndpointsOnly(proxyID string) bool {
	p.mu.Lock()
	defer p.mu.Unlock()
	stale := false
	for _, e := range p.by[proxyID] {
		if !e.proxyUpdate {
			continue
		}
		all := len(e.in) > 0
		for _, k := range e.in {
			if !strings.HasPrefix(k, "Endpoints/") {
				all = false
			}
		}
		// a later ProxyUpdate that is not swallowed repairs the proxy state
		stale = all
	}
	return stale
}

// pushEvidence reports what the push log saw for each proxy of server s.
func (s *server) pushEvidence(c *vh.Ctx, st string) {
	s.pushes.mu.Lock()
	ids := make([]string, 0, len(s.pushes.stats))
	for id := range s.pushes.stats {
		ids = append(ids, id)
	}
	sort.Strings(ids)
	for _, id := range ids {
		ps := s.pushes.stats[id]
		c.Count(st+"_pushes_endpoint_only", ps.endpointOnly)
		c.Count(st+"_pushes_full", ps.full)
		c.Count(st+"_pushes_forced", ps.forced)
		c.Count(st+"_pushes_dropped_by_dependency_filter", ps.dropped)
		if ps.endpointOnly > 0 {
			c.SetAdd(st+"_proxies_with_endpoint_only_pushes", id)
		}
		if ps.full > 0 {
			c.SetAdd(st+"_proxies_with_full_pushes", id)
		}
	}
	s.pushes.mu.Unlock()
	s.gen.mu.Lock()
	c.Count(st+"_incremental_eds_generations", s.gen.narrowed["EDS"])
	c.Count(st+"_full_eds_generations", s.gen.full["EDS"])
	c.Count(st+"_skipped_eds_generations", s.gen.skipped["EDS"])
	s.gen.mu.Unlock()
}

// diffClass names the top-level fields in which two resources differ (root-cause hint in keys).
func diffClass(t string, a, b *anypb.Any) string {
	if a == nil || b == nil {
		return "presence"
	}
	ma, mb := canon(t, a), canon(t, b)
	if _, isAny := ma.(*anypb.Any); isAny {
		x, err1 := a.UnmarshalNew()
		y, err2 := b.UnmarshalNew()
		if err1 != nil || err2 != nil {
			return "undecodable"
		}
		ma, mb = x, y
	}
	ra, rb := ma.ProtoReflect(), mb.ProtoReflect()
	if ra.Descriptor().FullName() != rb.Descriptor().FullName() {
		return "type"
	}
	fields := ra.Descriptor().Fields()
	var names []string
	for i := 0; i < fields.Len(); i++ {
		fd := fields.Get(i)
		if ra.Has(fd) != rb.Has(fd) || !ra.Get(fd).Equal(rb.Get(fd)) {
			names = append(names, string(fd.Name()))
		}
	}
	if len(names) == 0 {
		return "fields=?"
	}
	return "fields=" + strings.Join(names, "+")
}

// resClass names the kind of resource (used in keys of the new strata).
func resClass(t, name string) string {
	switch t {
	case envoyclient.CDS, envoyclient.EDS:
		switch {
		case strings.HasPrefix(name, "inbound|"):
			return "inbound"
		case strings.HasPrefix(name, "outbound|"), strings.HasPrefix(name, "outbound_"):
			return "outbound"
		}
		return "static"
	case envoyclient.LDS:
		switch {
		case name == "virtualInbound", name == "virtualOutbound":
			return name
		case strings.HasPrefix(name, "0.0.0.0_"):
			return "wildcard-port-listener"
		}
		return "address-listener"
	}
	return "route"
}

// addrOrigin classifies an endpoint address by the pool the generators draw it from.
func addrOrigin(a string) string {
	switch {
	case strings.HasPrefix(a, "10.20."):
		return "workloadentry"
	case strings.HasPrefix(a, "10.40."), strings.HasPrefix(a, "10.50."):
		return "pod"
	case strings.HasPrefix(a, "10.30."):
		return "manual-slice"
	case strings.HasPrefix(a, "10.10."), strings.HasPrefix(a, "10.11."), strings.HasPrefix(a, "10.12."):
		return "serviceentry-inline"
	}
	return "other"
}

// edsDiffClass says which kind of endpoints a long-lived ClusterLoadAssignment has in excess of, lacks, or
// holds differently from the fresh one.
func edsDiffClass(a, b *anypb.Any) string {
	type ent struct {
		e   *endpointv3.LbEndpoint
		loc string
	}
	index := func(x *anypb.Any) map[string]ent {
		out := map[string]ent{}
		m := &endpointv3.ClusterLoadAssignment{}
		if x == nil || proto.Unmarshal(x.Value, m) != nil {
			return out
		}
		for _, l := range m.Endpoints {
			for _, e := range l.LbEndpoints {
				out[epKey(e)] = ent{e, locKey(l)}
			}
		}
		return out
	}
	ia, ib := index(a), index(b)
	sets := map[string]map[string]bool{"extra": {}, "missing": {}, "changed": {}}
	addr := func(k string) string { return k[:strings.IndexByte(k, ':')] }
	tag := func(k string, e *endpointv3.LbEndpoint) string {
		t := addrOrigin(addr(k)) + "/" + strings.ToLower(e.GetHealthStatus().String())
		if addrNote != nil {
			if n := addrNote(addr(k)); n != "" {
				t += "/" + n
			}
		}
		return t
	}
	for k, ea := range ia {
		eb, ok := ib[k]
		switch {
		case !ok:
			sets["extra"][tag(k, ea.e)] = true
		case !proto.Equal(ea.e, eb.e):
			what := "other"
			switch {
			case ea.e.GetHealthStatus() != eb.e.GetHealthStatus():
				what = "health"
			case !proto.Equal(ea.e.GetMetadata(), eb.e.GetMetadata()):
				what = "metadata"
			}
			sets["changed"][tag(k, ea.e)+"/"+what] = true
		case ea.loc != eb.loc:
			// same endpoint in another locality group / priority (a consequence of other endpoints differing, or of locality labels)
			sets["changed"][tag(k, ea.e)+"/group"] = true
		}
	}
	for k, eb := range ib {
		if _, ok := ia[k]; !ok {
			sets["missing"][tag(k, eb.e)] = true
		}
	}
	var parts []string
	for _, n := range []string{"extra", "missing", "changed"} {
		if len(sets[n]) > 0 {
			parts = append(parts, n+"="+strings.Join(sortedKeysOf(sets[n]), "+"))
		}
	}
	if len(parts) == 0 {
		return "endpoints=other"
	}
	// finding F3: an endpoint that its EndpointSlice lists as terminating and that is sent as UNHEALTHY on one side only.
	// A terminating endpoint is only ever converted to UNHEALTHY when its Service was not known at conversion time
	// (with the Service known it becomes Terminating/Draining and is not sent as unhealthy), and a later Service event
	// does not convert the slice again: which side has it depends on the order in which slice and Service arrived.
	{
		only := len(sets["extra"])+len(sets["missing"]) > 0
		for t := range sets["changed"] {
			// the same endpoint in another locality group / priority is a consequence of the other endpoints differing
			if !strings.HasSuffix(t, "/group") {
				only = false
			}
		}
		for _, n := range []string{"extra", "missing"} {
			for t := range sets[n] {
				if !strings.HasSuffix(t, "/unhealthy/terminating-in-slice") {
					only = false
				}
			}
		}
		if only {
			return "terminating-endpoint-converted-before-its-service-was-known:" + strings.Join(parts, ":")
		}
	}
	return strings.Join(parts, ":")
}

// addrNote, when set, says what the harness' own Kubernetes objects know about an endpoint address that is a known
// trigger: "terminating-in-slice" for an address some live EndpointSlice lists with condition terminating.
var addrNote func(addr string) string

func (w *world) addrNoteK(addr string) string {
	if w.kube == nil {
		return ""
	}
	for _, o := range w.kube.objs {
		sl, ok := o.(*discoveryv1.EndpointSlice)
		if !ok {
			continue
		}
		for _, e := range sl.Endpoints {
			if e.Conditions.Terminating != nil && *e.Conditions.Terminating {
				for _, a := range e.Addresses {
					if a == addr {
						return "terminating-in-slice"
					}
				}
			}
		}
	}
	return ""
}

// classifyDiffs gives every difference of one client at one checkpoint a root-cause hint: EDS by the
// kind of endpoints that differ, other types by the top-level fields that differ, and a cluster whose
// hostname also has an endpoint difference is marked as co-occurring with it (service accounts and
// hence the cluster's TLS settings are derived from the same endpoint shards).
func classifyDiffs(diffs []diff, held, fresh map[string]map[string]*anypb.Any, hostInfo func(string) string) map[string]string {
	out := map[string]string{}
	defer func() {
		// what the harness knows about the hostname's service comes first: it is the most specific hint
		for _, d := range diffs {
			if d.Type != envoyclient.EDS && d.Type != envoyclient.CDS {
				continue
			}
			if _, _, h, _ := model.ParseSubsetKey(d.Name); h != "" {
				if hi := hostInfo(string(h)); hi != "" {
					out[d.String()] = hi + ":" + out[d.String()]
				}
			}
		}
	}()
	edsByHost := map[string]string{}
	for _, d := range diffs {
		if d.Type == envoyclient.EDS {
			cl := edsDiffClass(held[d.Type][d.Name], fresh[d.Type][d.Name])
			out[d.String()] = cl
			if _, _, h, _ := model.ParseSubsetKey(d.Name); h != "" {
				edsByHost[string(h)] = cl
			}
		}
	}
	for _, d := range diffs {
		if d.Type == envoyclient.EDS {
			continue
		}
		cl := diffClass(d.Type, held[d.Type][d.Name], fresh[d.Type][d.Name])
		if d.Type == envoyclient.CDS && held[d.Type][d.Name] != nil && fresh[d.Type][d.Name] != nil {
			// do the two clusters differ in the expected peer identities (derived from the endpoint shards' service accounts) only?
			ta, tb := sanRe.ReplaceAllString(resourceText(d.Type, held[d.Type][d.Name]), ""), sanRe.ReplaceAllString(resourceText(d.Type, fresh[d.Type][d.Name]), "")
			if ta == tb {
				cl = "subject-alt-names-only"
			}
		}
		if d.Type == envoyclient.CDS {
			if _, _, h, _ := model.ParseSubsetKey(d.Name); h != "" && edsByHost[string(h)] != "" {
				cl += ":co-occurs-with-eds:" + edsByHost[string(h)]
			}
		}
		out[d.String()] = cl
	}
	return out
}

var sanRe = regexp.MustCompile(`match_subject_alt_names:\{[^{}]*\}\s*`)

func clusterHasEndpoints(a *anypb.Any) bool {
	m := &endpointv3.ClusterLoadAssignment{}
	if a == nil || proto.Unmarshal(a.Value, m) != nil {
		return false
	}
	for _, l := range m.Endpoints {
		if len(l.LbEndpoints) > 0 {
			return true
		}
	}
	return false
}

// hostInfo says what the authoritative Kubernetes state knows about the service behind a hostname when that
// is a known trigger of its own: a Service exported to nobody (exportTo "~") is never pushed by the registry.
func (w *world) hostInfo(hostname string) string {
	if w.kube == nil {
		return ""
	}
	if w.hostSquatted(hostname) {
		return "hostname-served-by-serviceentry-and-kubernetes-in-one-namespace"
	}
	parts := strings.Split(hostname, ".")
	if len(parts) < 3 || parts[2] != "svc" {
		return ""
	}
	o, ok := w.kube.objs["Service/"+parts[1]+"/"+parts[0]]
	if !ok {
		return ""
	}
	for _, ns := range strings.Split(o.(*corev1.Service).Annotations["networking.istio.io/exportTo"], ",") {
		if strings.TrimSpace(ns) == "~" {
			return "service-exported-to-nobody"
		}
	}
	return ""
}

// hostSquatted reports whether a live ServiceEntry defines the hostname of a Kubernetes Service of its OWN namespace
// (<svc>.<ns>.svc.cluster.local in namespace <ns>): the two registries then share one (hostname, namespace) key in
// the endpoint index and the service index, whatever Kubernetes Service exists or existed under that name.
func (w *world) hostSquatted(hostname string) bool {
	return w.squatHosts[hostname]
}

func (w *world) kubeService(hostname string) *corev1.Service {
	if w.kube == nil {
		return nil
	}
	parts := strings.Split(hostname, ".")
	if len(parts) < 3 || parts[2] != "svc" {
		return nil
	}
	if o, ok := w.kube.objs["Service/"+parts[1]+"/"+parts[0]]; ok {
		return o.(*corev1.Service)
	}
	return nil
}

// noteProxyPod follows the pods of pod-backed proxies (finding F2).
func (w *world) noteProxyPod(o op, prev kruntime.Object) {
	if o.K.Kind != "Pod" || o.K.Obj == nil || prev == nil {
		return
	}
	for _, p := range proxies {
		if !p.pod || p.name != o.Name || p.ns != o.NS {
			continue
		}
		cur, old := o.K.Obj.(*corev1.Pod), prev.(*corev1.Pod)
		if w.proxyPodStale == nil {
			w.proxyPodStale = map[string]bool{}
		}
		switch {
		case podReady(cur):
			delete(w.proxyPodStale, p.name)
		case !reflect.DeepEqual(cur.Labels, old.Labels):
			w.proxyPodStale[p.name] = true
		}
	}
}

// proxyCause names a known reason why the proxy's own state (labels, service targets) is stale.
func (w *world) proxyCause(s *server, p proxySpec) string {
	if !p.pod {
		return ""
	}
	// (finding F2p, a pod relabelled while not ready whose own proxy was not told, was recognised here from the harness'
	// own record of such pods (w.proxyPodStale) until it was fixed in the tree: a0b3a80)
	// (finding F9, a ProxyUpdate request merged into an endpoint-only push, was recognised here from the push log until
	// it was fixed in the tree: 440f299)
	return ""
}

// shapeSpecific: classes read off the difference itself that the proxy's own stale state cannot explain.
func shapeSpecific(class string) bool {
	return strings.Contains(class, "subject-alt-names-only") || strings.HasPrefix(class, "terminating-endpoint-converted-before-its-service-was-known") ||
		strings.Contains(class, ":terminating-endpoint-converted-before-its-service-was-known")
}

// refineCause turns the push-log class of a stale resource into a root-cause class where the input shape says more.
func (w *world) refineCause(cause string, p proxySpec, t, name string, d diff, class string, held, fresh *anypb.Any) string {
	sanOnly := t == envoyclient.CDS && held != nil && fresh != nil &&
		sanRe.ReplaceAllString(resourceText(t, held), "") == sanRe.ReplaceAllString(resourceText(t, fresh), "")
	if pc := w.proxyCause(w.a, p); pc != "" && !sanOnly {
		return pc
	}
	if strings.HasPrefix(class, "service-exported-to-nobody") {
		return "service-exported-to-nobody"
	}
	if _, _, h, _ := model.ParseSubsetKey(name); h != "" {
		if w.hostSquatted(string(h)) {
			return "hostname-served-by-serviceentry-and-kubernetes-in-one-namespace"
		}
		if svc := w.kubeService(string(h)); svc != nil && svc.Spec.ClusterIP == corev1.ClusterIPNone && t == envoyclient.CDS && held != nil && fresh != nil {
			// a headless cluster's TLS settings are inferred from its endpoints, but CDS is not regenerated when only they change
			switch diffClass(t, held, fresh) {
			case "fields=transport_socket", "fields=transport_socket_matches", "fields=transport_socket_matches+transport_socket", "fields=transport_socket+transport_socket_matches":
				return "cds-not-regenerated-on-headless-endpoint-change"
			}
		}
	}
	if sanOnly {
		// the copy differs in the expected peer identities only: the service accounts the push context held when the
		// cluster was last generated for this client were not those of the final state (finding F5)
		return "subject-alt-names-only"
	}
	if cause == "unknown" && w.unexportedServiceTouched() {
		return "service-exported-to-nobody-changed"
	}
	return cause
}

// unexportedServiceTouched reports whether a Service exported to nobody was created, changed or deleted since
// the previous checkpoint (such a Service still selects workloads, but its events are never pushed).
func (w *world) unexportedServiceTouched() bool {
	return w.touchedUnexported
}

func isUnexported(o kruntime.Object) bool {
	svc, ok := o.(*corev1.Service)
	if !ok {
		return false
	}
	for _, ns := range strings.Split(svc.Annotations["networking.istio.io/exportTo"], ",") {
		if strings.TrimSpace(ns) == "~" {
			return true
		}
	}
	return false
}

func kubeText(o kruntime.Object) string {
	switch x := o.(type) {
	case *corev1.Namespace:
		return fmt.Sprintf("{labels=%v annotations=%v}", x.Labels, x.Annotations)
	case *corev1.Node:
		return fmt.Sprintf("{labels=%v}", x.Labels)
	case *corev1.Pod:
		return fmt.Sprintf("{labels=%v sa=%s node=%s ip=%q phase=%s ready=%v terminating=%v ts=%d}", x.Labels, x.Spec.ServiceAccountName, x.Spec.NodeName,
			x.Status.PodIP, x.Status.Phase, podReady(x), x.DeletionTimestamp != nil, x.CreationTimestamp.Unix())
	case *corev1.Service:
		var ps []string
		for _, p := range x.Spec.Ports {
			ps = append(ps, fmt.Sprintf("%s:%d->%s", p.Name, p.Port, p.TargetPort.String()))
		}
		return fmt.Sprintf("{type=%s clusterIP=%q externalName=%q ports=%v selector=%v labels=%v annotations=%v ts=%d}", x.Spec.Type, x.Spec.ClusterIP, x.Spec.ExternalName, ps,
			x.Spec.Selector, x.Labels, x.Annotations, x.CreationTimestamp.Unix())
	case *discoveryv1.EndpointSlice:
		var es, ps []string
		for _, e := range x.Endpoints {
			ref := "-"
			if e.TargetRef != nil {
				ref = e.TargetRef.Name
			}
			b := func(p *bool) string {
				if p == nil {
					return "nil"
				}
				return fmt.Sprint(*p)
			}
			es = append(es, fmt.Sprintf("%v/%s/r=%s,s=%s,t=%s", e.Addresses, ref, b(e.Conditions.Ready), b(e.Conditions.Serving), b(e.Conditions.Terminating)))
		}
		for _, p := range x.Ports {
			n, num := "", int32(0)
			if p.Name != nil {
				n = *p.Name
			}
			if p.Port != nil {
				num = *p.Port
			}
			ps = append(ps, fmt.Sprintf("%s:%d", n, num))
		}
		return fmt.Sprintf("{svc=%s endpoints=%v ports=%v}", x.Labels[discoveryv1.LabelServiceName], es, ps)
	}
	return fmt.Sprintf("%T", o)
}

// ---------------------------------------------------------------------------------------
// clusters that stay warming

// assertWarming: a SotW client that still has a warming cluster at a quiescent point is a violation (off while the
// unchanged tree is being measured: XDSCONV_ASSERT_WARMING=0|1 overrides the default).
var assertWarming = func() bool { //nolint
	switch os.Getenv("XDSCONV_ASSERT_WARMING") {
	case "1":
		return true
	case "0":
		return false
	}
	return assertWarmingDefault
}()

const assertWarmingDefault = true

// warmingCheck reads Warming() of the clients at a quiescent point: an EDS cluster that a CDS response created or
// changed and that was not given a ClusterLoadAssignment afterwards never leaves warming in a real Envoy (istio sets no
// EDS initial_fetch_timeout): the proxy keeps using the old cluster configuration for good.
func (w *world) warmingCheck(prop, context string, cls []*envoyclient.Client, detail func(*envoyclient.Client) string) {
	c := w.c
	// persistence re-check (see regrace) before anything is reported: a cluster whose endpoints are merely on their way
	// is not one that stays warming
	warmingNow := func() (n int) {
		for _, cl := range cls {
			if cl != nil && !cl.Delta {
				n += len(cl.Warming())
			}
		}
		return n
	}
	if first := warmingNow(); first > 0 {
		if !regrace(w.live()) {
			c.Inconclusive("persistence re-check did not quiesce")
			return
		}
		if second := warmingNow(); second < first {
			w.premature(w.pfx(prop)+":cluster-stays-warming", first-second)
		}
	}
	for _, cl := range cls {
		if cl == nil {
			continue
		}
		c.Count("warming_checks", 1)
		names := cl.Warming()
		if len(names) == 0 {
			continue
		}
		if cl.Delta {
			c.Count("delta_clusters_warming_at_quiescence", len(names))
			continue
		}
		c.Count("clusters_warming_at_quiescence", len(names))
		if w.st != "" {
			c.Count(w.st+"_clusters_warming_at_quiescence", len(names))
		}
		extra := ""
		if detail != nil {
			extra = detail(cl)
		}
		fmt.Printf("WARMING %s %s %s: %v %s\n", w.pfx(prop), context, cl.Name, names, extra)
		if assertWarming {
			ctx := context
			if w.st != "" {
				if cause := w.warmingCause(cl, names); cause != "" {
					ctx = "cause=" + cause + ":" + context
					extra += " last pushes: " + strings.Join(w.live().pushes.tail(proxyIDOf(cl), 4), " | ")
				}
			}
			c.Violation(fmt.Sprintf("%s:cluster-stays-warming:%s:%s", w.pfx(prop), protoOf(cl), ctx),
				fmt.Sprintf("%s client %s: at a quiescent point %d cluster(s) that a CDS response created or changed have not been given endpoints since (%v): a real Envoy keeps them warming for good. %s", w.pfx(prop), cl.Name, len(names), names, extra),
				map[string]any{"client": cl.Name, "warming": names, "scenario": extra, "history": histText(w.hist, w.applied)})
		}
	}
}

// proxyIDOf: the proxy ID ("name.namespace") of a client ("name/sotw", "name/delta/...").
func proxyIDOf(cl *envoyclient.Client) string {
	name := cl.Name
	if i := strings.IndexByte(name, '/'); i >= 0 {
		name = name[:i]
	}
	for _, p := range proxies {
		if p.name == name {
			return p.name + "." + p.ns
		}
	}
	return name
}

// warmingCause reads the push log: the last push that reached the proxy was not forced and none of its keys names the
// service of any warming cluster. Its SotW CDS response nevertheless carried those clusters with a new content (every
// cluster is regenerated from the push context, e.g. with service accounts that entered the endpoint index since the
// cluster was last generated), while the EDS generator sent only the clusters of the services named by the keys
// (partial push): the changed cluster is never given endpoints again.
func (w *world) warmingCause(cl *envoyclient.Client, names []string) string {
	pl := w.live().pushes
	pl.mu.Lock()
	defer pl.mu.Unlock()
	es := pl.by[proxyIDOf(cl)]
	for i := len(es) - 1; i >= 0; i-- {
		e := es[i]
		if !e.pushed {
			continue
		}
		if e.forced || len(e.out) == 0 {
			return ""
		}
		for _, n := range names {
			_, _, h, _ := model.ParseSubsetKey(n)
			for _, k := range e.out {
				if strings.HasSuffix(k, "/"+string(h)) && !strings.HasPrefix(k, "Endpoints/") {
					return ""
				}
			}
		}
		return "cluster-changed-by-cds-of-a-push-whose-partial-eds-skipped-it"
	}
	return ""
}

// ---------------------------------------------------------------------------------------
// development-time validation of the quiescence detector (XDSCONV_VALIDATE_IDLE=1): after the detector
// declared the process idle, wait for real time to pass and check that nothing moved — no update
// accepted or committed, no push, no response to any client. Used to validate that informers, the
// kube controller queue and the ambient krt pipeline have no timer-driven work the detector cannot see.

var validateIdle = os.Getenv("XDSCONV_VALIDATE_IDLE") != ""

func (w *world) activityFingerprint() string {
	ds := w.a.srv.Discovery
	var sb strings.Builder
	fmt.Fprintf(&sb, "in=%d co=%d", ds.InboundUpdates.Load(), ds.CommittedUpdates.Load())
	w.a.pushes.mu.Lock()
	fmt.Fprintf(&sb, " pushes=%d", w.a.pushes.total)
	w.a.pushes.mu.Unlock()
	cls, _ := w.clients()
	for _, cl := range cls {
		st := cl.StatsCopy()
		n := 0
		for k, v := range st {
			if strings.HasPrefix(k, "responses_") {
				n += v
			}
		}
		fmt.Fprintf(&sb, " %s=%d", cl.Name, n)
	}
	if w.z != nil {
		for _, z := range []*ztunnelclient.Client{w.z.wild, w.z.od} {
			fmt.Fprintf(&sb, " %s=%d", z.Name, z.ResponseCount())
		}
	}
	return sb.String()
}

func (w *world) stableAfterIdle() bool {
	before := w.activityFingerprint()
	time.Sleep(250 * time.Millisecond)
	after := w.activityFingerprint()
	if before != after {
		fmt.Printf("IDLE-VALIDATION-FAILED before=%s after=%s\n", before, after)
		return false
	}
	w.c.Count("idle_validations_passed", 1)
	return true
}

var _ = envoyclient.CDS

// ---------------------------------------------------------------------------------------
// stall diagnosis (never part of a verdict): a child that makes no progress for two minutes of real time prints all
// goroutine stacks once, so that a rare stall outside the quiescence watchdog (server construction, teardown, a blocking
// client call) can be explained from the child log afterwards.

var (
	progress     atomic.Int64
	stallWatcher sync.Once
)

func noteProgress() {
	progress.Add(1)
	stallWatcher.Do(func() {
		go func() {
			last, since := int64(-1), 0
			tick := time.NewTicker(10 * time.Second)
			for range tick.C {
				if p := progress.Load(); p != last {
					last, since = p, 0
					continue
				}
				since++
				if since == 12 {
					buf := make([]byte, 8<<20)
					buf = buf[:runtime.Stack(buf, true)]
					fmt.Printf("STALL-DUMP no progress for 120 s\n%s\nSTALL-DUMP end\n", buf)
				}
			}
		}()
	})
}
