package main

// krepro.go: minimal scripted histories for the findings of stratum K. They run through exactly the same
// world, clients and C01 oracle as the generated histories, as cases "krepro/<name>" of property C01, when
// XDSCONV_REPRO=<name>|all is set (nothing else runs then):
//
//	XDSCONV_REPRO=all XDSCONV_STRATA=k /verif/bin/xdsconv -prop C01 -tier quick
//
// Each is the smallest history found that shows the behaviour against the real code.

import (
	"fmt"
	"math/rand"
	"os"
	"strings"
	"time"

	corev1 "k8s.io/api/core/v1"
	discoveryv1 "k8s.io/api/discovery/v1"
	kruntime "k8s.io/apimachinery/pkg/runtime"
	"k8s.io/apimachinery/pkg/util/intstr"

	networking "istio.io/api/networking/v1alpha3"
	securitybeta "istio.io/api/security/v1beta1"
	typev1beta1 "istio.io/api/type/v1beta1"
	"istio.io/istio/pkg/config"
	"istio.io/istio/pkg/config/schema/gvk"
	"verifharness/internal/vh"
)

type krepro struct {
	name, what string
	build      func(b *kscript)
}

// reproDebounce: the debounce time of the repro's control plane (default 2ms).
var reproDebounce = map[string]time.Duration{"proxyupdate-merged-into-endpoints-push": 0, "root-peerauthentication-deleted-after-context-built": 0}

// kscript builds an initial cluster and batches by hand on top of the generator's object constructors.
type kscript struct {
	g       *kgen
	initial []kruntime.Object
	batches [][]op
	cur     []op
	ts      int64
	noCheck map[int]bool // batches after which the simulated EndpointSlice controller has NOT caught up: no comparison there
}

func newKscript() *kscript {
	b := &kscript{g: newKgen(rand.New(rand.NewSource(1))), ts: 1700000000}
	b.initial = b.g.initialBase()
	return b
}

func (b *kscript) init(objs ...kruntime.Object) {
	for _, o := range objs {
		b.initial = append(b.initial, o.DeepCopyObject()) // the script may go on changing the object
	}
}
func (b *kscript) add(ops ...op) { b.cur = append(b.cur, ops...) }
func (b *kscript) flushUnsettled() {
	if b.noCheck == nil {
		b.noCheck = map[int]bool{}
	}
	b.noCheck[len(b.batches)] = true
	b.flush()
}

func (b *kscript) flush() {
	if len(b.cur) > 0 {
		b.batches = append(b.batches, b.cur)
		b.cur = nil
	}
}

func (b *kscript) pod(ns, name string, labels map[string]string, sa, ip string, ready bool) *corev1.Pod {
	return b.g.newPod(ns, name, labels, sa, "node-1", ip, ready)
}

func (b *kscript) svc(ns, name string, headless bool, clusterIP string, selector map[string]string, annos map[string]string, ports ...corev1.ServicePort) *corev1.Service {
	s := &corev1.Service{ObjectMeta: b.g.meta(ns, name, map[string]string{"app": name}, annos)}
	s.Spec.Ports, s.Spec.Selector, s.Spec.Type = ports, selector, corev1.ServiceTypeClusterIP
	if headless {
		s.Spec.ClusterIP, s.Spec.ClusterIPs = corev1.ClusterIPNone, []string{corev1.ClusterIPNone}
	} else {
		s.Spec.ClusterIP, s.Spec.ClusterIPs = clusterIP, []string{clusterIP}
	}
	return s
}

func sport(name string, port, target int32) corev1.ServicePort {
	return corev1.ServicePort{Name: name, Port: port, TargetPort: intstr.FromInt32(target), Protocol: corev1.ProtocolTCP}
}

type kep struct {
	pod                         *corev1.Pod
	ready, serving, terminating bool
}

func (b *kscript) slice(svc *corev1.Service, idx int, eps ...kep) *discoveryv1.EndpointSlice {
	s := &discoveryv1.EndpointSlice{
		ObjectMeta:  b.g.meta(svc.Namespace, sliceName(svc.Name, idx), map[string]string{discoveryv1.LabelServiceName: svc.Name}, nil),
		AddressType: discoveryv1.AddressTypeIPv4,
	}
	for _, sp := range svc.Spec.Ports {
		n, num, pr := sp.Name, sp.TargetPort.IntVal, corev1.ProtocolTCP
		s.Ports = append(s.Ports, discoveryv1.EndpointPort{Name: &n, Port: &num, Protocol: &pr})
	}
	for _, e := range eps {
		r, sv, t, node := e.ready, e.serving, e.terminating, e.pod.Spec.NodeName
		s.Endpoints = append(s.Endpoints, discoveryv1.Endpoint{
			Addresses: []string{e.pod.Status.PodIP}, Conditions: discoveryv1.EndpointConditions{Ready: &r, Serving: &sv, Terminating: &t},
			TargetRef: &corev1.ObjectReference{Kind: "Pod", Name: e.pod.Name, Namespace: e.pod.Namespace}, NodeName: &node,
		})
	}
	return s
}

func (b *kscript) k(verb string, o kruntime.Object, note string) op {
	kind, ns, name := kIdent(o)
	if verb == "update" {
		switch x := o.(type) {
		case *corev1.Pod:
			b.g.bump(&x.ObjectMeta)
		case *corev1.Service:
			b.g.bump(&x.ObjectMeta)
		case *discoveryv1.EndpointSlice:
			b.g.bump(&x.ObjectMeta)
		}
	}
	if verb == "delete" {
		return b.g.emit(verb, kind, nil, ns, name, note)
	}
	return b.g.emit(verb, kind, o, ns, name, note)
}

func (b *kscript) cfg(verb string, k config.GroupVersionKind, ns, name string, spec config.Spec) op {
	b.ts++
	return op{Verb: verb, Kind: k, NS: ns, Name: name, Spec: spec, TS: b.ts}
}

func lbl(kv ...string) map[string]string {
	m := map[string]string{}
	for i := 0; i+1 < len(kv); i += 2 {
		m[kv[i]] = kv[i+1]
	}
	return m
}

var kRepros = []krepro{
	{"we-deselected", "F1: a WorkloadEntry whose labels change so that a Kubernetes Service no longer selects it stays an endpoint of that Service", func(b *kscript) {
		b.init(b.svc("ns3", "kc", false, "10.96.3.1", lbl("app", "we-b"), nil, sport("http-alt", 8080, 8080)))
		b.add(b.cfg("create", gvk.WorkloadEntry, "ns3", "we-0", &networking.WorkloadEntry{Address: "10.20.0.2", Labels: lbl("app", "we-b", "version", "v1"), ServiceAccount: "sa-b"}))
		b.flush()
		o := b.cfg("update", gvk.WorkloadEntry, "ns3", "we-0", &networking.WorkloadEntry{Address: "10.20.0.2", Labels: lbl("app", "we-a", "version", "v1"), ServiceAccount: "sa-b"})
		o.TS = b.batches[0][0].TS
		b.add(o)
		b.flush()
	}},
	{"notready-pod-relabel", "F2: a label change of a pod that is not ready is ignored by the pod cache: endpoint metadata built from it stays stale", func(b *kscript) {
		svc := b.svc("ns1", "ka", false, "10.96.1.2", lbl("app", "we-a"), nil, sport("http", 80, 80))
		p := b.pod("ns1", "p0", lbl("app", "we-a", "version", "v1"), "sa-a", "10.40.0.1", true)
		sl := b.slice(svc, 0, kep{p, true, true, false})
		b.init(svc, p.DeepCopy(), sl.DeepCopy())
		setReady(p, false)
		b.add(b.k("update", p, "ready=false"))
		sl2 := b.slice(svc, 0, kep{p, false, false, false})
		sl2.CreationTimestamp = sl.CreationTimestamp
		b.add(b.k("update", sl2, "1 endpoints"))
		b.flush()
		p.Labels = lbl("app", "we-a", "version", "v2")
		b.add(b.k("update", p, "relabel"))
		b.flush()
	}},
	{"notready-proxy-pod-relabel", "F2: same cause seen from the pod's own proxy: its workload labels (hence Sidecar/policy selection) are not recomputed", func(b *kscript) {
		for i, h := range []string{"a.example.com", "b.example.com"} {
			b.add(b.cfg("create", gvk.ServiceEntry, "ns1", fmt.Sprintf("se-%d", i), &networking.ServiceEntry{Hosts: []string{h}, Resolution: networking.ServiceEntry_STATIC,
				Ports: []*networking.ServicePort{{Number: 80, Name: "http", Protocol: "HTTP"}}, Endpoints: []*networking.WorkloadEntry{{Address: "10.10.0.1"}}}))
		}
		b.add(b.cfg("create", gvk.Sidecar, "ns1", "sc-0", &networking.Sidecar{WorkloadSelector: &networking.WorkloadSelector{Labels: lbl("app", "client-a")},
			Egress: []*networking.IstioEgressListener{{Hosts: []string{"./a.example.com"}}}}))
		b.flush()
		p := b.g.pods["ns1/kpod-a"]
		setReady(p, false)
		b.add(b.k("update", p, "ready=false"))
		b.flush()
		p.Labels = lbl("app", "client-b", "version", "v1")
		b.add(b.k("update", p, "relabel"))
		b.flush()
	}},
	{"slice-before-service", "F3: an EndpointSlice converted before its Service is known keeps endpoint health computed without the Service (Terminating becomes UnHealthy and is sent); depends on the informer start order of the fresh control plane", func(b *kscript) {
		svc := b.svc("ns2", "kb", false, "10.96.2.1", lbl("app", "we-b"), nil, sport("grpc", 9090, 9091))
		p := b.pod("ns2", "p4", lbl("app", "we-b", "version", "v2"), "default", "10.40.0.2", false)
		// the delivery order of different informers is not defined (and racy at start-up): here the slice event precedes the service event
		b.add(b.k("create", p, "not ready"), b.k("create", b.slice(svc, 2, kep{p, false, false, true}), "1 endpoints (terminating)"), b.k("create", svc, "clusterip"))
		b.flush()
	}},
	{"headless-cds-skip", "F4: CDS is skipped for headless endpoint updates although a headless cluster's TLS settings are inferred from its endpoints", func(b *kscript) {
		svc := b.svc("ns1", "kh", true, "", lbl("app", "we-a"), nil, sport("tcp", 9000, 9000))
		b.init(svc)
		p := b.pod("ns1", "p0", lbl("app", "we-a", "version", "v1", "security.istio.io/tlsMode", "istio"), "sa-a", "10.40.0.1", true)
		b.add(b.k("create", p, "ready"), b.k("create", b.slice(svc, 0, kep{p, true, true, false}), "1 endpoints"))
		b.flush()
	}},
	{"sans-after-zero-endpoints", "F5: the service accounts of a hostname are not recomputed when its endpoints go to zero: clusters keep the SANs of endpoints that are gone", func(b *kscript) {
		svc := b.svc("ns1", "ka", false, "10.96.1.2", lbl("app", "we-a"), nil, sport("http", 80, 80))
		p := b.pod("ns1", "p0", lbl("app", "we-a", "version", "v1", "security.istio.io/tlsMode", "istio"), "sa-b", "10.40.0.1", true)
		sl := b.slice(svc, 0, kep{p, true, true, false})
		b.init(svc, p, sl)
		b.add(b.k("delete", p, "deleted"), b.k("delete", sl, "removed"))
		b.flush()
	}},
	{"unexported-service", "F6: events of a Service exported to nobody (exportTo ~) are never pushed although the Service still selects workloads (their inbound configuration)", func(b *kscript) {
		b.add(b.k("create", b.svc("ns2", "kb", false, "10.96.2.1", lbl("app", "client-b"), lbl("networking.istio.io/exportTo", "~"), sport("tcp", 9000, 9001)), "clusterip exportTo=~"))
		b.flush()
	}},
	{"own-service-key-dropped", "F7: the key of a Service the proxy has just stopped belonging to is dropped by the per-proxy dependency filter (it looks at the recomputed service targets only): inbound configuration for it stays", func(b *kscript) {
		svc := b.svc("ns2", "kb", false, "10.96.2.1", lbl("app", "client-b"), nil, sport("tcp", 9000, 9001))
		pb := b.g.pods["ns2/kpod-b"]
		sl := b.slice(svc, 1, kep{pb, true, true, false})
		b.init(svc.DeepCopy(), sl)
		b.add(b.cfg("create", gvk.Sidecar, "istio-system", "sc-1", &networking.Sidecar{Egress: []*networking.IstioEgressListener{{Hosts: []string{"ns1/*"}}}}))
		b.flush()
		svc.Spec.Selector = lbl("app", "client-a")
		b.add(b.k("update", svc, "selector"))
		b.flush()
		svc.Labels = lbl("app", "kb", "rev", "1")
		b.add(b.k("delete", sl, "removed"), b.k("update", svc, "labels"))
		b.flush()
	}},
	{"proxyupdate-merged-into-endpoints-push", "F9: a forced ProxyUpdate request (pod label change) merged in the push queue with a pending endpoint-only request yields Endpoints keys only, and pushConnection then skips computeProxyState: the proxy keeps its old workload labels (timing dependent: several rounds)", func(b *kscript) {
		svc := b.svc("ns1", "ka", false, "10.96.1.2", lbl("app", "we-a"), nil, sport("http", 80, 80))
		p := b.pod("ns1", "p0", lbl("app", "we-a", "version", "v1"), "sa-a", "10.40.0.1", true)
		sl := b.slice(svc, 0, kep{p, true, true, false})
		b.init(svc, p, sl.DeepCopy())
		// a proxy whose full push takes a while: many services
		for i := 0; i < 40; i++ {
			b.add(b.cfg("create", gvk.ServiceEntry, "ns1", fmt.Sprintf("se-%d", i), &networking.ServiceEntry{Hosts: []string{fmt.Sprintf("h%d.example.com", i)}, Resolution: networking.ServiceEntry_STATIC,
				Ports:     []*networking.ServicePort{{Number: 80, Name: "http", Protocol: "HTTP"}, {Number: 9000, Name: "tcp", Protocol: "TCP"}, {Number: uint32(7000 + i), Name: "tcp-x", Protocol: "TCP"}},
				Endpoints: []*networking.WorkloadEntry{{Address: "10.10.0.1"}}}))
		}
		b.add(b.cfg("create", gvk.AuthorizationPolicy, "ns1", "ap-0", &securitybeta.AuthorizationPolicy{Selector: &typev1beta1.WorkloadSelector{MatchLabels: lbl("app", "client-a")},
			Action: securitybeta.AuthorizationPolicy_DENY, Rules: []*securitybeta.Rule{{To: []*securitybeta.Rule_To{{Operation: &securitybeta.Operation{Ports: []string{"9000"}}}}}}}))
		b.flush()
		pa := b.g.pods["ns1/kpod-a"]
		ready := true
		relabel := func(app string) op {
			pa.Labels = lbl("app", app, "version", "v1")
			return b.k("update", pa, "relabel app="+app)
		}
		for round := 0; round < 10; round++ {
			// the first relabel starts a (slow) forced push; the endpoint-only request and the second ProxyUpdate meet in the queue behind it
			b.add(relabel("we-b"))
			ready = !ready
			s2 := b.slice(svc, 0, kep{p, ready, ready, false})
			s2.CreationTimestamp = sl.CreationTimestamp
			b.add(b.k("update", s2, fmt.Sprintf("ready=%v", ready)))
			b.add(relabel("client-a"))
			b.flush()
		}
	}},
	{"eds-skipped-for-cluster-changed-by-dr-shadowing", "W1: a DestinationRule created in the proxy's own namespace (wildcard host, workloadSelector that does NOT select the proxy) shadows the exported DestinationRule that shaped the proxy's cluster: CDS regenerates the cluster (policy and subset gone), but the partial EDS push only looks at the DestinationRules that were/are APPLIED (clusterAffectedByChangedDrs) and skips it, and the EDS re-subscription with a smaller name set is not answered: the changed cluster never leaves warming", func(b *kscript) {
		b.add(b.cfg("create", gvk.ServiceEntry, "ns2", "se-0", &networking.ServiceEntry{Hosts: []string{"a.example.com"}, Resolution: networking.ServiceEntry_STATIC,
			Ports: []*networking.ServicePort{{Number: 9090, Name: "grpc", Protocol: "GRPC"}}, Endpoints: []*networking.WorkloadEntry{{Address: "10.11.2.2", Labels: lbl("version", "v1")}}}))
		b.add(b.cfg("create", gvk.DestinationRule, "ns2", "dr-2", &networking.DestinationRule{Host: "a.example.com", ExportTo: []string{"ns3"},
			TrafficPolicy: &networking.TrafficPolicy{ConnectionPool: &networking.ConnectionPoolSettings{Tcp: &networking.ConnectionPoolSettings_TCPSettings{MaxConnections: 65}}},
			Subsets:       []*networking.Subset{{Name: "v1", Labels: lbl("version", "v1")}}}))
		b.flush()
		b.add(b.cfg("create", gvk.DestinationRule, "ns3", "dr-0", &networking.DestinationRule{Host: "*.example.com", ExportTo: []string{"."},
			WorkloadSelector: &typev1beta1.WorkloadSelector{MatchLabels: lbl("app", "client-b")},
			TrafficPolicy:    &networking.TrafficPolicy{OutlierDetection: &networking.OutlierDetection{ConsecutiveErrors: 2}},
			Subsets:          []*networking.Subset{{Name: "v1", Labels: lbl("version", "v1")}, {Name: "v2", Labels: lbl("version", "v2")}}}))
		b.flush()
	}},
	{"service-targets-from-slices", "F8: service targets found through EndpointSlices (pod no longer selected, slice not yet updated) are not refreshed by the endpoint-only push that follows the slice update", func(b *kscript) {
		svc := b.svc("ns1", "e", false, "10.96.1.1", lbl("app", "client-a"), nil, sport("tcp", 9000, 9001))
		pa := b.g.pods["ns1/kpod-a"]
		sl := b.slice(svc, 0, kep{pa, true, true, false})
		b.init(svc, sl)
		pa.Labels = lbl("app", "client-b", "version", "v1")
		b.add(b.k("update", pa, "relabel"))
		b.flushUnsettled()
		b.add(b.k("delete", sl, "removed"))
		b.flush()
	}},
	{"root-peerauthentication-deleted-after-context-built", "P1 (same defect as the known service-key-dropped finding, for a PeerAuthentication key): the mesh-wide PeerAuthentication is deleted right " +
		"after an unrelated PeerAuthentication of another namespace changed. With no debounce the first event starts a push whose context is built when the deletion is already in the store: " +
		"the sidecar scope is recomputed without the policy for a key that does not concern the proxy (no push). When the deletion's own key arrives neither the current nor the previous scope " +
		"lists the policy, proxyDependentOnConfig drops the key and the proxy keeps STRICT inbound filter chains. Timing dependent: the pair is repeated to make a hit likely",
		func(b *kscript) {
			strict := &securitybeta.PeerAuthentication{Mtls: &securitybeta.PeerAuthentication_MutualTLS{Mode: securitybeta.PeerAuthentication_MutualTLS_STRICT}}
			for i := 0; i < 8; i++ {
				b.add(b.cfg(map[bool]string{true: "create", false: "update"}[i == 0], gvk.PeerAuthentication, "ns3", "pa-other", &securitybeta.PeerAuthentication{
					Mtls: &securitybeta.PeerAuthentication_MutualTLS{Mode: securitybeta.PeerAuthentication_MutualTLS_Mode(1 + i%3)}}))
				b.add(b.cfg("create", gvk.PeerAuthentication, rootNS, "pa-mesh", strict))
				b.flush()
				b.add(b.cfg("update", gvk.PeerAuthentication, "ns3", "pa-other", &securitybeta.PeerAuthentication{
					Mtls: &securitybeta.PeerAuthentication_MutualTLS{Mode: securitybeta.PeerAuthentication_MutualTLS_Mode(1 + (i+1)%3)}}),
					b.cfg("delete", gvk.PeerAuthentication, rootNS, "pa-mesh", nil))
				b.flush()
			}
		}},
}

// initialBase returns the fixed part of the initial cluster: namespaces, nodes and the pods of pod-backed proxies.
func (g *kgen) initialBase() []kruntime.Object {
	var out []kruntime.Object
	for _, ns := range append(append([]string{}, namespaces...), rootNS) {
		n := &corev1.Namespace{ObjectMeta: g.meta("", ns, map[string]string{"kubernetes.io/metadata.name": ns}, nil)}
		g.nss[ns] = n
		out = append(out, n.DeepCopy())
	}
	for i, n := range kNodes {
		labels := map[string]string{}
		switch i {
		case 0:
			labels["topology.kubernetes.io/region"], labels["topology.kubernetes.io/zone"] = "r1", "z1"
		case 1:
			labels["topology.kubernetes.io/region"], labels["topology.kubernetes.io/zone"] = "r2", "z1"
		}
		out = append(out, &corev1.Node{ObjectMeta: g.meta("", n, labels, nil)})
	}
	for _, p := range proxiesK {
		if !p.pod {
			continue
		}
		pod := g.newPod(p.ns, p.name, copyMap(p.labels), "sa-a", "node-1", p.ip, true)
		g.pods[p.ns+"/"+p.name] = pod
		out = append(out, pod.DeepCopy())
	}
	return out
}

func reproSelected() string { return os.Getenv("XDSCONV_REPRO") }

// runRepros runs the selected scripted histories with the C01 oracle at every batch.
func runRepros(c *vh.Ctx) {
	sel := reproSelected()
	runZRepros(c, sel)
	for i, rp := range kRepros {
		if sel != "all" && sel != rp.name {
			continue
		}
		if !c.Mine(i) {
			continue
		}
		c.Case("krepro/"+rp.name, func() { runScript(c, "krepro/"+rp.name, rp) })
	}
}

// kProbes are directed histories that are part of stratum K in every C01 run (cases "kprobe/<name>"): each isolates one
// dependency that the generated histories reach only now and then at the quick tier (a repair by the next event of the same
// hostname usually follows within the batch), so that the mutants of the brief are caught at every seed. They go through
// exactly the same world, clients and oracle as the generated histories.
var kProbes = []krepro{
	{"slices-deleted-after-selector-change", "an EndpointSlice is deleted with nothing else happening to its service or pods (the Service's selector changed one batch earlier): the endpoints must go", func(b *kscript) {
		svc := b.svc("ns1", "e", false, "10.96.1.1", lbl("app", "we-a"), nil, sport("http", 80, 8080), sport("tcp", 9000, 9000))
		p0 := b.pod("ns1", "p0", lbl("app", "we-a", "version", "v1"), "sa-a", "10.40.0.1", true)
		p1 := b.pod("ns1", "p1", lbl("app", "we-a", "version", "v2", "security.istio.io/tlsMode", "istio"), "sa-b", "10.40.0.2", true)
		sl0, sl1 := b.slice(svc, 0, kep{p0, true, true, false}), b.slice(svc, 1, kep{p1, true, true, false})
		b.init(svc, p0, p1, sl0, sl1)
		svc2 := svc.DeepCopy()
		svc2.Spec.Selector = lbl("app", "nobody")
		b.add(b.k("update", svc2, "selector"))
		b.flushUnsettled()
		b.add(b.k("delete", sl0, "removed"))
		b.flushUnsettled()
		b.add(b.k("delete", sl1, "removed"))
		b.flush()
	}},
	{"ready-pod-relabelled-within-selection", "a ready pod changes a label its Service does not select on (version): no EndpointSlice changes, yet endpoint metadata and subset membership must follow", func(b *kscript) {
		svc := b.svc("ns1", "e", false, "10.96.1.1", lbl("app", "we-a"), nil, sport("http", 80, 8080))
		p0 := b.pod("ns1", "p0", lbl("app", "we-a", "version", "v1"), "sa-a", "10.40.0.1", true)
		p1 := b.pod("ns1", "p1", lbl("app", "we-a", "version", "v1"), "sa-a", "10.40.0.2", true)
		// (copies: the script goes on changing p0 and p1)
		b.init(svc, p0.DeepCopy(), p1.DeepCopy(), b.slice(svc, 0, kep{p0, true, true, false}, kep{p1, true, true, false}))
		b.add(b.cfg("create", gvk.DestinationRule, "ns1", "dr-0", &networking.DestinationRule{Host: "e.ns1.svc.cluster.local",
			Subsets: []*networking.Subset{{Name: "v1", Labels: lbl("version", "v1")}, {Name: "v2", Labels: lbl("version", "v2")}}}))
		b.flush()
		p0.Labels = lbl("app", "we-a", "version", "v2")
		b.add(b.k("update", p0, "relabel"))
		b.flush()
		p1.Labels = lbl("app", "we-a", "version", "v2", "security.istio.io/tlsMode", "istio")
		b.add(b.k("update", p1, "relabel"))
		b.flush()
	}},
}

func runProbes(c *vh.Ctx) {
	for i, rp := range kProbes {
		if !c.Mine(i) {
			continue
		}
		c.Case("kprobe/"+rp.name, func() { runScript(c, "kprobe/"+rp.name, rp) })
	}
}

// runScript drives one scripted history through the world, clients and C01 oracle of stratum K.
func runScript(c *vh.Ctx, label string, rp krepro) {
	defer stratumK.use()()
	b := newKscript()
	rp.build(b)
	fmt.Printf("SCRIPT %s: %s\n", label, rp.what)
	for _, l := range histText(b.batches, len(b.batches)) {
		fmt.Println("SCRIPT   " + l)
	}
	debounce := 2 * time.Millisecond
	if d, ok := reproDebounce[rp.name]; ok {
		debounce = d
	}
	w := newWorldK(c, debounce, "k", b.initial)
	defer w.close()
	w.hist = b.batches
	w.caseName = label
	if !quiesce(w.a) {
		c.Inconclusive("initial sync did not quiesce")
		return
	}
	all, allPidx := w.clients()
	nCheckpoints := 0
	for bi, batch := range b.batches {
		w.applyBatch(w.a, batch)
		w.applied = bi + 1
		if !quiesce(w.a) {
			c.Inconclusive("batch did not quiesce")
			return
		}
		if b.noCheck[bi] {
			continue
		}
		info := fmt.Sprintf("checkpoint after batch %d of %s (%s)", bi, label, strings.SplitN(rp.what, ":", 2)[0])
		saved := assertWarming
		assertWarming = true // scripted histories always assert
		w.warmingCheck("c01", "long-lived", all, nil)
		assertWarming = saved
		n, ok := w.checkAgainstFresh(w.a, all, allPidx, w.pfx("c01"), info)
		if !ok {
			return
		}
		c.Count("resources_compared", n)
		c.Count("checkpoints", 1)
		c.Count("k_checkpoints", 1)
		if nCheckpoints++; nCheckpoints > 1 {
			c.AddEvaluations(1)
		}
		c.Nontrivial(label + fmt.Sprint(bi))
		c.Count("k_nontrivial", 1)
		w.kindsCP = map[string]bool{}
		w.touchedUnexported = false
	}
}
