package main

import (
	"fmt"
	"math/rand"
	"time"

	"google.golang.org/protobuf/types/known/durationpb"
	"google.golang.org/protobuf/types/known/structpb"
	wrappers "google.golang.org/protobuf/types/known/wrapperspb"

	extensions "istio.io/api/extensions/v1alpha1"
	networking "istio.io/api/networking/v1alpha3"
	securityv1 "istio.io/api/security/v1"
	securitybeta "istio.io/api/security/v1beta1"
	telemetry "istio.io/api/telemetry/v1alpha1"
	typev1beta1 "istio.io/api/type/v1beta1"
	"istio.io/istio/pkg/config"
	"istio.io/istio/pkg/config/schema/collections"
	"istio.io/istio/pkg/config/schema/gvk"
)

var (
	namespaces = []string{"ns1", "ns2", "ns3"}
	rootNS     = "istio-system"
	hostPool   = []string{"a.example.com", "b.example.com", "c.example.com", "a.example.com", "b.example.com", "e.ns1.svc.cluster.local"}
	kinds      = []config.GroupVersionKind{
		gvk.ServiceEntry, gvk.ServiceEntry, gvk.ServiceEntry, gvk.WorkloadEntry, gvk.VirtualService, gvk.VirtualService, gvk.DestinationRule, gvk.DestinationRule,
		gvk.Sidecar, gvk.Gateway, gvk.PeerAuthentication, gvk.RequestAuthentication, gvk.AuthorizationPolicy, gvk.EnvoyFilter, gvk.Telemetry, gvk.WasmPlugin,
	}
	allKinds = []config.GroupVersionKind{
		gvk.ServiceEntry, gvk.WorkloadEntry, gvk.VirtualService, gvk.DestinationRule, gvk.Sidecar, gvk.Gateway, gvk.PeerAuthentication,
		gvk.RequestAuthentication, gvk.AuthorizationPolicy, gvk.EnvoyFilter, gvk.Telemetry, gvk.WasmPlugin,
	}
)

func pick[T any](r *rand.Rand, xs []T) T { return xs[r.Intn(len(xs))] }

func exportTo(r *rand.Rand) []string {
	switch r.Intn(12) {
	case 0:
		return []string{"."}
	case 1:
		return []string{"*"}
	case 2:
		return []string{pick(r, namespaces)}
	case 3:
		return []string{".", pick(r, namespaces)}
	}
	return nil
}

type portDef struct {
	num   uint32
	name  string
	proto string
}

var portPool = []portDef{{80, "http", "HTTP"}, {8080, "http-alt", "HTTP"}, {9000, "tcp", "TCP"}, {443, "tls", "TLS"}, {9090, "grpc", "GRPC"}}

// genSpec draws a spec for the kind. ns is the object's namespace.
func genSpec(r *rand.Rand, k config.GroupVersionKind, ns string) config.Spec {
	switch k {
	case gvk.ServiceEntry:
		se := &networking.ServiceEntry{Hosts: []string{pick(r, hostPool)}, ExportTo: exportTo(r)}
		if r.Intn(5) == 0 {
			se.Hosts = append(se.Hosts, pick(r, hostPool))
			if se.Hosts[0] == se.Hosts[1] {
				se.Hosts = se.Hosts[:1]
			}
		}
		if r.Intn(8) == 0 {
			se.Hosts = []string{"*.wild.example.com"}
		}
		np := 1 + r.Intn(2)
		seen := map[uint32]bool{}
		for i := 0; i < np; i++ {
			p := pick(r, portPool)
			if seen[p.num] {
				continue
			}
			seen[p.num] = true
			se.Ports = append(se.Ports, &networking.ServicePort{Number: p.num, Name: p.name, Protocol: p.proto})
		}
		wild := se.Hosts[0][0] == '*'
		switch x := r.Intn(10); {
		case wild:
			se.Resolution = networking.ServiceEntry_NONE
		case x < 5:
			se.Resolution = networking.ServiceEntry_STATIC
			if r.Intn(4) == 0 {
				se.WorkloadSelector = &networking.WorkloadSelector{Labels: map[string]string{"app": pick(r, []string{"we-a", "we-b"})}}
			} else {
				for i, n := 0, 1+r.Intn(3); i < n; i++ {
					se.Endpoints = append(se.Endpoints, &networking.WorkloadEntry{
						Address:  fmt.Sprintf("10.%d.%d.%d", 10+r.Intn(3), r.Intn(3), 1+r.Intn(6)),
						Labels:   map[string]string{"version": pick(r, []string{"v1", "v2"})},
						Locality: pick(r, []string{"", "r1/z1", "r2/z1", "r3/z2"}),
					})
				}
			}
		case x < 8:
			se.Resolution = networking.ServiceEntry_DNS
			if r.Intn(2) == 0 {
				se.Endpoints = []*networking.WorkloadEntry{{Address: pick(r, []string{"up1.example.org", "up2.example.org"})}}
			}
		default:
			se.Resolution = networking.ServiceEntry_NONE
		}
		if r.Intn(3) == 0 {
			se.Location = networking.ServiceEntry_MESH_INTERNAL
		}
		return se
	case gvk.WorkloadEntry:
		return &networking.WorkloadEntry{
			Address:        fmt.Sprintf("10.20.%d.%d", r.Intn(3), 1+r.Intn(6)),
			Labels:         map[string]string{"app": pick(r, []string{"we-a", "we-b"}), "version": pick(r, []string{"v1", "v2"})},
			ServiceAccount: pick(r, []string{"", "sa-a", "sa-b"}),
		}
	case gvk.VirtualService:
		vs := &networking.VirtualService{Hosts: []string{pick(r, hostPool)}, ExportTo: exportTo(r)}
		if r.Intn(4) == 0 {
			vs.Gateways = []string{pick(r, []string{"istio-system/gw-a", "istio-system/gw-b", "mesh"})}
			if r.Intn(2) == 0 {
				vs.Gateways = append(vs.Gateways, "mesh")
			}
		}
		for i, n := 0, 1+r.Intn(2); i < n; i++ {
			rt := &networking.HTTPRoute{}
			if r.Intn(2) == 0 {
				rt.Match = []*networking.HTTPMatchRequest{{Uri: &networking.StringMatch{MatchType: &networking.StringMatch_Prefix{Prefix: pick(r, []string{"/api", "/v1", "/"})}}}}
			}
			d := &networking.Destination{Host: pick(r, hostPool)}
			if r.Intn(3) == 0 {
				d.Subset = pick(r, []string{"v1", "v2"})
			}
			if r.Intn(3) == 0 {
				d.Port = &networking.PortSelector{Number: pick(r, portPool).num}
			}
			rt.Route = []*networking.HTTPRouteDestination{{Destination: d}}
			if r.Intn(4) == 0 {
				rt.Timeout = durationpb.New(time.Duration(1+r.Intn(5)) * time.Second)
			}
			vs.Http = append(vs.Http, rt)
		}
		if r.Intn(6) == 0 {
			vs.Tcp = []*networking.TCPRoute{{Route: []*networking.RouteDestination{{Destination: &networking.Destination{Host: pick(r, hostPool), Port: &networking.PortSelector{Number: 9000}}}}}}
		}
		return vs
	case gvk.DestinationRule:
		dr := &networking.DestinationRule{Host: pick(r, hostPool), ExportTo: exportTo(r)}
		if r.Intn(6) == 0 {
			dr.Host = "*.example.com"
		}
		for _, v := range []string{"v1", "v2"} {
			if r.Intn(3) != 0 {
				// the same subset name may select different endpoints after an update
				lv := v
				if r.Intn(3) == 0 {
					lv = pick(r, []string{"v1", "v2"})
				}
				dr.Subsets = append(dr.Subsets, &networking.Subset{Name: v, Labels: map[string]string{"version": lv}})
			}
		}
		switch r.Intn(8) {
		case 5:
			dr.TrafficPolicy = &networking.TrafficPolicy{LoadBalancer: &networking.LoadBalancerSettings{LbPolicy: &networking.LoadBalancerSettings_ConsistentHash{
				ConsistentHash: &networking.LoadBalancerSettings_ConsistentHashLB{HashKey: &networking.LoadBalancerSettings_ConsistentHashLB_HttpHeaderName{HttpHeaderName: pick(r, []string{"x-user", "x-session"})}}}}}
		case 6:
			dr.TrafficPolicy = &networking.TrafficPolicy{
				OutlierDetection: &networking.OutlierDetection{ConsecutiveErrors: 3, BaseEjectionTime: durationpb.New(30 * time.Second)},
				LoadBalancer: &networking.LoadBalancerSettings{LocalityLbSetting: &networking.LocalityLoadBalancerSetting{
					Enabled:  wrappers.Bool(true),
					Failover: []*networking.LocalityLoadBalancerSetting_Failover{{From: "r1", To: pick(r, []string{"r2", "r3"})}},
				}},
			}
		case 7:
			dr.TrafficPolicy = &networking.TrafficPolicy{LoadBalancer: &networking.LoadBalancerSettings{LocalityLbSetting: &networking.LocalityLoadBalancerSetting{
				Enabled:    wrappers.Bool(true),
				Distribute: []*networking.LocalityLoadBalancerSetting_Distribute{{From: "r1/*", To: map[string]uint32{"r1/*": uint32(50 + 10*r.Intn(5)), "r2/*": 0}}},
			}}}
			dr.TrafficPolicy.LoadBalancer.LocalityLbSetting.Distribute[0].To["r2/*"] = 100 - dr.TrafficPolicy.LoadBalancer.LocalityLbSetting.Distribute[0].To["r1/*"]
		case 0:
			dr.TrafficPolicy = &networking.TrafficPolicy{Tls: &networking.ClientTLSSettings{Mode: pick(r, []networking.ClientTLSSettings_TLSmode{
				networking.ClientTLSSettings_DISABLE, networking.ClientTLSSettings_ISTIO_MUTUAL, networking.ClientTLSSettings_SIMPLE})}}
		case 1:
			dr.TrafficPolicy = &networking.TrafficPolicy{LoadBalancer: &networking.LoadBalancerSettings{LbPolicy: &networking.LoadBalancerSettings_Simple{
				Simple: pick(r, []networking.LoadBalancerSettings_SimpleLB{networking.LoadBalancerSettings_ROUND_ROBIN, networking.LoadBalancerSettings_LEAST_REQUEST, networking.LoadBalancerSettings_RANDOM})}}}
		case 2:
			dr.TrafficPolicy = &networking.TrafficPolicy{ConnectionPool: &networking.ConnectionPoolSettings{Tcp: &networking.ConnectionPoolSettings_TCPSettings{MaxConnections: int32(10 + r.Intn(90))}}}
		case 3:
			dr.TrafficPolicy = &networking.TrafficPolicy{OutlierDetection: &networking.OutlierDetection{ConsecutiveErrors: int32(1 + r.Intn(5)), BaseEjectionTime: durationpb.New(30 * time.Second)}}
		}
		if r.Intn(8) == 0 {
			dr.WorkloadSelector = &typev1beta1.WorkloadSelector{MatchLabels: map[string]string{"app": pick(r, []string{"client-a", "client-b"})}}
		}
		return dr
	case gvk.Sidecar:
		sc := &networking.Sidecar{}
		if r.Intn(2) == 0 {
			sc.WorkloadSelector = &networking.WorkloadSelector{Labels: map[string]string{"app": pick(r, []string{"client-a", "client-b"})}}
		}
		eg := &networking.IstioEgressListener{}
		for i, n := 0, 1+r.Intn(3); i < n; i++ {
			nsPart := pick(r, []string{"*", ".", "ns1", "ns2", "ns3", "istio-system"})
			hostPart := pick(r, append([]string{"*", "*.example.com"}, hostPool...))
			eg.Hosts = append(eg.Hosts, nsPart+"/"+hostPart)
		}
		if r.Intn(5) == 0 {
			p := pick(r, portPool)
			eg.Port = &networking.SidecarPort{Number: p.num, Protocol: p.proto, Name: p.name}
		}
		sc.Egress = []*networking.IstioEgressListener{eg}
		if r.Intn(4) == 0 {
			sc.OutboundTrafficPolicy = &networking.OutboundTrafficPolicy{Mode: pick(r, []networking.OutboundTrafficPolicy_Mode{networking.OutboundTrafficPolicy_REGISTRY_ONLY, networking.OutboundTrafficPolicy_ALLOW_ANY})}
		}
		return sc
	case gvk.Gateway:
		gw := &networking.Gateway{Selector: map[string]string{"istio": "ingressgateway"}}
		for i, n := 0, 1+r.Intn(2); i < n; i++ {
			p := pick(r, []portDef{{80, "http", "HTTP"}, {8080, "http-alt", "HTTP"}, {9000, "tcp", "TCP"}})
			gw.Servers = append(gw.Servers, &networking.Server{
				Port:  &networking.Port{Number: p.num, Name: fmt.Sprintf("%s-%d", p.name, i), Protocol: p.proto},
				Hosts: []string{pick(r, append([]string{"*", "*.example.com", "ns1/a.example.com"}, hostPool...))},
			})
		}
		return gw
	case gvk.PeerAuthentication:
		pa := &securitybeta.PeerAuthentication{Mtls: &securitybeta.PeerAuthentication_MutualTLS{Mode: pick(r, []securitybeta.PeerAuthentication_MutualTLS_Mode{
			securitybeta.PeerAuthentication_MutualTLS_UNSET, securitybeta.PeerAuthentication_MutualTLS_DISABLE, securitybeta.PeerAuthentication_MutualTLS_PERMISSIVE, securitybeta.PeerAuthentication_MutualTLS_STRICT})}}
		if ns != rootNS && r.Intn(2) == 0 {
			pa.Selector = &typev1beta1.WorkloadSelector{MatchLabels: map[string]string{"app": pick(r, []string{"client-a", "client-b", "we-a"})}}
			if r.Intn(2) == 0 {
				pa.PortLevelMtls = map[uint32]*securitybeta.PeerAuthentication_MutualTLS{uint32(pick(r, portPool).num): {Mode: securitybeta.PeerAuthentication_MutualTLS_DISABLE}}
			}
		}
		return pa
	case gvk.RequestAuthentication:
		ra := &securitybeta.RequestAuthentication{JwtRules: []*securitybeta.JWTRule{{
			Issuer: pick(r, []string{"issuer-a@example.com", "issuer-b@example.com"}),
			Jwks:   `{"keys":[{"e":"AQAB","kid":"k1","kty":"RSA","n":"xAE7eB6qugXyCAG3yhh7pkDkT65pHymX-P7KfIupjf59vsdo91bSP9C8H07pSAGQO1MV_xFj9VswgsCg4R6otmg5PV2He95lZdHtOcU5DXIg_pbhLdKXbi66GlVeK6ABZOUW3WYtnNHD-91gVuoeJT_DwtGGcp4ignkgXfkiEm4sw-4sfb4qdt5oLbyVpmW6x9cfa7vs2WTfURiCrBoUqgBo_-4WTiULmmHSGZHOjzwa8WtrtOQGsAFjIbno85jp6MnGGGZPYZbDAa_b3y5u-YpW7ypZrvD8BgtKVjgtQgZhLAGezMt0ua3DRrWnKqTZ0BJ_EyxOGuHJrLsn00fnMQ"}]}`,
		}}}
		if r.Intn(2) == 0 {
			ra.Selector = &typev1beta1.WorkloadSelector{MatchLabels: map[string]string{"app": pick(r, []string{"client-a", "client-b"})}}
		}
		return ra
	case gvk.AuthorizationPolicy:
		ap := &securitybeta.AuthorizationPolicy{Action: pick(r, []securitybeta.AuthorizationPolicy_Action{securitybeta.AuthorizationPolicy_ALLOW, securitybeta.AuthorizationPolicy_DENY})}
		ap.Rules = []*securitybeta.Rule{{
			From: []*securitybeta.Rule_From{{Source: &securitybeta.Source{Namespaces: []string{pick(r, namespaces)}}}},
			To:   []*securitybeta.Rule_To{{Operation: &securitybeta.Operation{Ports: []string{fmt.Sprint(pick(r, portPool).num)}}}},
		}}
		if r.Intn(2) == 0 {
			ap.Selector = &typev1beta1.WorkloadSelector{MatchLabels: map[string]string{"app": pick(r, []string{"client-a", "client-b"})}}
		}
		return ap
	case gvk.EnvoyFilter:
		ef := &networking.EnvoyFilter{}
		if r.Intn(2) == 0 {
			ef.WorkloadSelector = &networking.WorkloadSelector{Labels: map[string]string{"app": pick(r, []string{"client-a", "client-b"})}}
		}
		switch r.Intn(2) {
		case 0:
			v, _ := structpb.NewStruct(map[string]any{"connect_timeout": fmt.Sprintf("%ds", 1+r.Intn(9))})
			ef.ConfigPatches = []*networking.EnvoyFilter_EnvoyConfigObjectPatch{{
				ApplyTo: networking.EnvoyFilter_CLUSTER,
				Match:   &networking.EnvoyFilter_EnvoyConfigObjectMatch{Context: networking.EnvoyFilter_SIDECAR_OUTBOUND},
				Patch:   &networking.EnvoyFilter_Patch{Operation: networking.EnvoyFilter_Patch_MERGE, Value: v},
			}}
		default:
			v, _ := structpb.NewStruct(map[string]any{"per_connection_buffer_limit_bytes": float64(32768 * (1 + r.Intn(4)))})
			ef.ConfigPatches = []*networking.EnvoyFilter_EnvoyConfigObjectPatch{{
				ApplyTo: networking.EnvoyFilter_LISTENER,
				Match:   &networking.EnvoyFilter_EnvoyConfigObjectMatch{Context: pick(r, []networking.EnvoyFilter_PatchContext{networking.EnvoyFilter_SIDECAR_OUTBOUND, networking.EnvoyFilter_GATEWAY, networking.EnvoyFilter_ANY})},
				Patch:   &networking.EnvoyFilter_Patch{Operation: networking.EnvoyFilter_Patch_MERGE, Value: v},
			}}
		}
		return ef
	case gvk.Telemetry:
		t := &telemetry.Telemetry{}
		if r.Intn(2) == 0 {
			t.Selector = &typev1beta1.WorkloadSelector{MatchLabels: map[string]string{"app": pick(r, []string{"client-a", "client-b"})}}
		}
		if r.Intn(2) == 0 {
			t.AccessLogging = []*telemetry.AccessLogging{{Providers: []*telemetry.ProviderRef{{Name: "envoy"}}, Disabled: wrappers.Bool(r.Intn(2) == 0)}}
		} else {
			t.Metrics = []*telemetry.Metrics{{Providers: []*telemetry.ProviderRef{{Name: "prometheus"}}, Overrides: []*telemetry.MetricsOverrides{{Disabled: wrappers.Bool(r.Intn(2) == 0)}}}}
		}
		return t
	case gvk.WasmPlugin:
		w := &extensions.WasmPlugin{Url: "oci://registry.example.com/plugin:" + pick(r, []string{"v1", "v2"}), Phase: pick(r, []extensions.PluginPhase{extensions.PluginPhase_AUTHN, extensions.PluginPhase_STATS})}
		if r.Intn(2) == 0 {
			w.Selector = &typev1beta1.WorkloadSelector{MatchLabels: map[string]string{"app": pick(r, []string{"client-a", "client-b"})}}
		}
		return w
	}
	panic("no generator for " + k.String())
}

var _ = securityv1.AuthorizationPolicy{}

// op is one history step.
type op struct {
	Verb string // create | update | delete | noop-update
	Kind config.GroupVersionKind
	NS   string
	Name string
	Spec config.Spec `json:"-"`
	// TS is the creation timestamp (unix seconds), fixed per object incarnation and unique within a history:
	// which of several equally old objects wins a conflict is property C17's subject (tie-rich worlds are
	// generated by the determ engine), and arrival order must not leak into this comparison through ties.
	TS int64
	// K is set for Kubernetes operations of strata K and Z (Kind is then a pseudo kind "k8s.<Kind>", Spec nil).
	K *kop `json:"-"`
	// Z is set for steps of the on-demand ztunnel client itself (stratum Z): subscribe / unsubscribe an Address name.
	Z *zop `json:"-"`
}

func (o op) String() string {
	return fmt.Sprintf("%s %s %s/%s", o.Verb, o.Kind.Kind, o.NS, o.Name)
}

type objKey struct {
	k        config.GroupVersionKind
	ns, name string
}

// genHistory draws a history of n ops partitioned into batches (ops of a batch are issued back to back).
func genHistory(r *rand.Rand, n int) [][]op {
	live := map[objKey]op{}
	var order []objKey
	var batches [][]op
	var cur []op
	flush := func() {
		if len(cur) > 0 {
			batches = append(batches, cur)
			cur = nil
		}
	}
	for i := 0; i < n; i++ {
		verb := "create"
		if len(order) > 0 {
			switch x := r.Intn(10); {
			case x < 4:
				verb = "create"
			case x < 7:
				verb = "update"
			case x < 8:
				verb = "noop-update"
			default:
				verb = "delete"
			}
		}
		var o op
		var key objKey
		isNew := false
		switch verb {
		case "create":
			k := pick(r, kinds)
			ns := pick(r, namespaces)
			if (k == gvk.PeerAuthentication || k == gvk.Sidecar || k == gvk.EnvoyFilter || k == gvk.Telemetry || k == gvk.AuthorizationPolicy) && r.Intn(5) == 0 {
				ns = rootNS
			}
			if k == gvk.Gateway {
				ns = rootNS
			}
			name := fmt.Sprintf("%s-%d", kindShort(k), r.Intn(3))
			if k == gvk.Gateway {
				name = pick(r, []string{"gw-a", "gw-b"})
			}
			key = objKey{k, ns, name}
			if prev, exists := live[key]; exists {
				o = op{Verb: "update", Kind: k, NS: ns, Name: name, Spec: genSpec(r, k, ns), TS: prev.TS}
			} else {
				o = op{Verb: "create", Kind: k, NS: ns, Name: name, Spec: genSpec(r, k, ns), TS: 1700000000 + int64(i)}
				isNew = true
			}
		case "update", "noop-update":
			key = order[r.Intn(len(order))]
			prev := live[key]
			o = op{Verb: verb, Kind: key.k, NS: key.ns, Name: key.name, TS: prev.TS}
			if verb == "update" {
				o.Spec = genSpec(r, key.k, key.ns)
			} else {
				o.Spec = prev.Spec
			}
		case "delete":
			idx := r.Intn(len(order))
			key = order[idx]
			o = op{Verb: verb, Kind: key.k, NS: key.ns, Name: key.name}
			delete(live, key)
			order = append(order[:idx], order[idx+1:]...)
		}
		if o.Verb != "delete" {
			// objects admission would reject are not part of this property's quantifier
			sch, _ := collections.PilotGatewayAPI().FindByGroupVersionKind(o.Kind)
			if _, err := sch.ValidateConfig(toConfig(o)); err != nil {
				continue
			}
			live[key] = o
			if isNew {
				order = append(order, key)
			}
		}
		cur = append(cur, o)
		if r.Intn(3) == 0 {
			flush()
		}
	}
	flush()
	return batches
}

func kindShort(k config.GroupVersionKind) string {
	switch k {
	case gvk.ServiceEntry:
		return "se"
	case gvk.WorkloadEntry:
		return "we"
	case gvk.VirtualService:
		return "vs"
	case gvk.DestinationRule:
		return "dr"
	case gvk.Sidecar:
		return "sc"
	case gvk.Gateway:
		return "gw"
	case gvk.PeerAuthentication:
		return "pa"
	case gvk.RequestAuthentication:
		return "ra"
	case gvk.AuthorizationPolicy:
		return "ap"
	case gvk.EnvoyFilter:
		return "ef"
	case gvk.Telemetry:
		return "tm"
	case gvk.WasmPlugin:
		return "wp"
	}
	return k.Kind
}

func toConfig(o op) config.Config {
	return config.Config{
		Meta: config.Meta{GroupVersionKind: o.Kind, Name: o.Name, Namespace: o.NS, CreationTimestamp: time.Unix(o.TS, 0)},
		Spec: o.Spec,
	}
}
