package main

import (
	"fmt"
	"math/rand"
	"time"

	"verifharness/internal/envoyclient"
	"verifharness/internal/vh"
)

// scenario is one enumerated way of breaking and re-establishing a client's stream.
type scenario struct {
	Kind       string // init-cut | send-fail | boundary
	N          int    // init-cut: cut after the n-th response; send-fail: fail the n-th send
	Ack        bool   // init-cut: ACK the n-th response before cutting
	Orderly    bool   // boundary: EOF instead of cancel
	StaleNonce bool   // SotW reconnect presents the retained nonces
	EDSFirst   bool   // SotW reconnect: the EDS request for retained names reaches the server before the CDS request (envoy#13009)
	Coalesce   bool   // with EDSFirst: the ACK of the first EDS response is coalesced with the re-subscription that follows the CDS response
	Proxy      int
	Delta      bool
	Start      int // batch index before which the scenario starts (client connects / disconnects)
	Away       int // number of batches applied while the client is away

	self      bool // the scenario cuts the proxy's long-lived client itself (pod-backed proxies)
	cl        *envoyclient.Client
	awayTill  int
	away      bool
	armed     bool // fault configured on the live stream but not fired yet
	missed    int  // ops applied while away
	heldAtCut int
}

func (s *scenario) String() string {
	p := "sotw"
	if s.Delta {
		p = "delta"
	}
	if s.EDSFirst {
		p += ",eds-first"
	}
	if s.Coalesce {
		p += ",coalesced-ack"
	}
	return fmt.Sprintf("%s(n=%d,ack=%v,orderly=%v,staleNonce=%v,%s,%s,start=%d,away=%d)", s.Kind, s.N, s.Ack, s.Orderly, s.StaleNonce, proxies[s.Proxy].name, p, s.Start, s.Away)
}

func (s *scenario) key() string {
	p := "sotw"
	if s.Delta {
		p = "delta"
	}
	if s.EDSFirst {
		p += ":eds-first"
	}
	if s.Coalesce {
		p += ":coalesced-ack"
	}
	return fmt.Sprintf("%s:%s", s.Kind, p)
}

// scenProxies is the number of leading proxies that take part in scenario enumeration: those without a
// pod (a pod-backed proxy has one connection per control plane; its own client is cut instead, see below).
func scenProxies() int {
	n := 0
	for _, p := range proxies {
		if p.pod {
			break
		}
		n++
	}
	return n
}

func enumerateScenarios(nb int, salt int) []*scenario {
	var out []*scenario
	k := salt
	np := scenProxies()
	next := func() (int, bool) {
		k++
		return k % np, (k/np)%2 == 1
	}
	mid := nb / 2
	for n := 1; n <= 8; n++ {
		for _, ack := range []bool{true, false} {
			p, d := next()
			out = append(out, &scenario{Kind: "init-cut", N: n, Ack: ack, Proxy: p, Delta: d, Start: (mid + n) % nb, Away: (n + k) % 3, StaleNonce: n%2 == 0})
		}
	}
	for n := 1; n <= 6; n++ {
		p, d := next()
		out = append(out, &scenario{Kind: "send-fail", N: n, Proxy: p, Delta: d, Start: (mid + n + 1) % nb, Away: (n + k) % 2, StaleNonce: n%2 == 1})
	}
	for j := 0; j < nb; j++ {
		p, d := next()
		out = append(out, &scenario{Kind: "boundary", Proxy: p, Delta: d, Start: j, Away: 1 + (j+k)%3, Orderly: j%2 == 0, StaleNonce: j%3 == 0})
	}
	// EDS-first reconnects (SotW only), appended so that the scenarios above keep their proxies and protocols: a
	// boundary cut at every batch, and cuts inside the initial sync once EDS names are retained
	for j := 0; j < nb; j++ {
		p, _ := next()
		out = append(out, &scenario{Kind: "boundary", Proxy: p, Delta: false, EDSFirst: true, Coalesce: j%2 == 0, Start: j, Away: 1 + (j+k)%3, Orderly: j%2 == 1, StaleNonce: j%3 == 1})
	}
	for n := 3; n <= 8; n++ {
		p, _ := next()
		out = append(out, &scenario{Kind: "init-cut", N: n, Ack: n%2 == 0, Proxy: p, Delta: false, EDSFirst: true, Coalesce: n%2 == 1, Start: (mid + n + 2) % nb, Away: 1 + (n+k)%2, StaleNonce: n%2 == 1})
	}
	// pod-backed proxies: the long-lived client itself is cut at a batch boundary and reconnects later
	for pi, p := range proxies {
		if !p.pod {
			continue
		}
		for rep := 0; rep < 2 && nb > 0; rep++ {
			j := (salt + 3*pi + rep*(nb/2+1)) % nb
			out = append(out, &scenario{Kind: "self-boundary", Proxy: pi, Delta: p.mode == 2, Start: j, Away: 1 + (j+pi+rep)%3, Orderly: (j+rep)%2 == 0, StaleNonce: j%2 == 0, self: true})
		}
	}
	return out
}

func edsFirstSuffix(s *scenario) string {
	switch {
	case s.EDSFirst && s.Coalesce:
		return "-edsfirst-coalesced"
	case s.EDSFirst:
		return "-edsfirst"
	}
	return ""
}

func runC05(c *vh.Ctx) {
	if reproSelected() != "" {
		return
	}
	for _, st := range strata {
		if !st.enabled() {
			continue
		}
		n := st.nRecon[tierIdx(c)]
		for i := 0; i < n; i++ {
			if !c.Mine(i) {
				continue
			}
			c.Case(fmt.Sprintf("%s/%d", st.reconCase, i), func() {
				defer st.use()()
				if st.id == "z" {
					zreconnectCase(c, st, i)
				} else {
					reconnectCase(c, st, i)
				}
			})
		}
	}
	runWarmReconnects(c)
	runGateReconnects(c)
}

func reconnectCase(c *vh.Ctx, st *stratum, i int) {
	var hist [][]op
	var w *world
	var r *rand.Rand
	var debounce time.Duration
	switch st.id {
	case "":
		r = c.Rng("reconnect", i)
		hist = genHistory(r, 10+r.Intn(c.N(12, 30)))
		debounce = time.Duration(1+r.Intn(4)) * time.Millisecond
		w = newWorld(c, debounce)
	case "k":
		r = c.Rng("kreconnect", i)
		kinit, h, _ := genKHistory(r, 24+r.Intn(c.N(24, 50)))
		hist = h
		debounce = time.Duration(1+r.Intn(4)) * time.Millisecond
		w = newWorldK(c, debounce, "k", kinit)
	}
	w.hist = hist
	w.caseName = fmt.Sprintf("%s/%d", st.reconCase, i)
	cur := w.a
	defer func() {
		if cur != w.a {
			cur.f.Done()
		}
		w.close()
	}()
	if !quiesce(cur) {
		c.Inconclusive("initial sync did not quiesce")
		return
	}
	key05 := w.pfx("c05")
	scens := enumerateScenarios(len(hist), i)
	restartAt := -1
	if i%2 == 1 && len(hist) > 2 {
		restartAt = 1 + r.Intn(len(hist)-1)
	}
	// boundary clients live from the start
	for _, s := range scens {
		if s.Kind == "boundary" {
			s.cl = newClient(proxies[s.Proxy], s.Delta, "/"+s.Kind+fmt.Sprint(s.Start)+edsFirstSuffix(s))
			s.cl.EDSFirst, s.cl.CoalesceEDSAck = s.EDSFirst, s.Coalesce
			s.cl.Connect(cur.srv.Discovery, envoyclient.Fault{}, false)
		}
		if s.self {
			s.cl = w.primary(s.Proxy)
		}
	}
	if !quiesce(cur) {
		c.Inconclusive("scenario clients did not quiesce")
		return
	}
	held := func(cl *envoyclient.Client) int {
		n := 0
		for _, m := range cl.Snapshot() {
			n += len(m)
		}
		return n
	}
	// a long-lived client that is away because a self-boundary scenario cut it
	selfAway := func(cl *envoyclient.Client) bool {
		for _, s := range scens {
			if s.self && s.away && s.cl == cl {
				return true
			}
		}
		return false
	}
	for bi := 0; bi <= len(hist); bi++ {
		// 1. scheduled scenario starts
		var started []*scenario
		for _, s := range scens {
			if s.Start != bi || bi == len(hist) {
				continue
			}
			switch s.Kind {
			case "init-cut":
				s.cl = newClient(proxies[s.Proxy], s.Delta, fmt.Sprintf("/%s%d-%v", s.Kind, s.N, s.Ack)+edsFirstSuffix(s))
				s.cl.EDSFirst, s.cl.CoalesceEDSAck = s.EDSFirst, s.Coalesce
				s.cl.Connect(cur.srv.Discovery, envoyclient.Fault{CutAfterResponses: s.N, AckBeforeCut: s.Ack}, false)
				started = append(started, s)
			case "send-fail":
				s.cl = newClient(proxies[s.Proxy], s.Delta, fmt.Sprintf("/%s%d", s.Kind, s.N))
				s.cl.Connect(cur.srv.Discovery, envoyclient.Fault{FailSendAt: s.N}, false)
				started = append(started, s)
			case "boundary":
				s.heldAtCut = held(s.cl)
				s.cl.Disconnect(s.Orderly)
				s.away, s.awayTill = true, bi+s.Away
				c.Count("cuts_at_batch_boundary", 1)
			case "self-boundary":
				if selfAway(s.cl) {
					s.cl = nil // still away from the previous cut of the same client: this scenario does not take place
					continue
				}
				s.heldAtCut = held(s.cl)
				s.cl.Disconnect(s.Orderly)
				s.away, s.awayTill = true, bi+s.Away
				c.Count("cuts_of_long_lived_client_at_batch_boundary", 1)
			}
		}
		if len(started) > 0 {
			if !quiesce(cur) {
				c.Inconclusive("fault injection did not quiesce")
				return
			}
			for _, s := range started {
				done, _, pan := s.cl.StreamErr()
				if pan != "" {
					c.Violation(key05+":stream-handler-panic:"+vh.TopIstioFrame(pan), fmt.Sprintf("server stream handler panicked in scenario %s: %s", s, firstLine(pan)), nil)
					return
				}
				if !done && s.cl.Connected() {
					// the fault point has not been reached yet (fewer responses than n so far): it stays armed
					s.armed = true
					continue
				}
				s.heldAtCut = held(s.cl)
				s.cl.Disconnect(false)
				s.away, s.awayTill = true, bi+s.Away
				c.Count("cuts_"+s.Kind, 1)
			}
		}
		// 1b. armed faults that fired during the previous batch
		for _, s := range scens {
			if !s.armed || s.cl == nil || s.away {
				continue
			}
			done, _, pan := s.cl.StreamErr()
			if pan != "" {
				c.Violation(key05+":stream-handler-panic:"+vh.TopIstioFrame(pan), fmt.Sprintf("server stream handler panicked in scenario %s: %s", s, firstLine(pan)), nil)
				return
			}
			if done || !s.cl.Connected() {
				s.armed = false
				s.heldAtCut = held(s.cl)
				s.cl.Disconnect(false)
				s.away, s.awayTill = true, bi+s.Away
				c.Count("cuts_"+s.Kind+"_mid_push", 1)
			}
		}
		// 2. control-plane restart: everybody reconnects to a server built from the current state
		if bi == restartAt {
			next := newServerK(cur.snapshot(), w.kube.list(), debounce)
			var all []*envoyclient.Client
			base, _ := w.clients()
			for _, cl := range base {
				if !selfAway(cl) {
					all = append(all, cl)
				}
			}
			for _, s := range scens {
				if s.cl != nil && !s.away && !s.self {
					all = append(all, s.cl)
				}
			}
			for k, cl := range all {
				cl.Disconnect(k%2 == 0)
			}
			for _, s := range scens {
				s.armed = false
			}
			old := cur
			cur = next
			w.cur = cur
			for k, cl := range all {
				cl.Connect(cur.srv.Discovery, envoyclient.Fault{}, k%3 == 0)
			}
			if old != w.a {
				old.f.Done()
			}
			c.Count("control_plane_restarts", 1)
			if !quiesce(cur) {
				c.Inconclusive("restart did not quiesce")
				return
			}
		}
		// 3. reconnects that are due (before the next batch, or at the end)
		for _, s := range scens {
			if s.away && (s.awayTill <= bi || bi == len(hist)) {
				s.away = false
				s.cl.Connect(cur.srv.Discovery, envoyclient.Fault{}, s.StaleNonce)
				c.Count("reconnects", 1)
			}
		}
		if bi == len(hist) {
			break
		}
		// 4. the batch
		w.applyBatch(cur, hist[bi])
		w.applied = bi + 1
		for _, s := range scens {
			if s.away {
				s.missed += len(hist[bi])
			}
		}
		if !quiesce(cur) {
			c.Inconclusive(fmt.Sprintf("batch %d did not quiesce", bi))
			return
		}
		c.Count("batches", 1)
		for _, o := range hist[bi] {
			if o.K != nil {
				c.Count("kube_ops:"+o.Verb+"_"+o.K.Kind, 1)
				c.Count(st.id+"_kube_ops", 1)
			} else if st.id != "" {
				c.Count(st.id+"_config_ops", 1)
			}
		}
	}
	if !quiesce(cur) {
		c.Inconclusive("final reconnects did not quiesce")
		return
	}
	// a fault whose point was never reached must not fire during the oracle's own forced pushes
	for _, s := range scens {
		if s.armed && s.cl != nil {
			s.cl.Disarm()
		}
	}
	// oracle: every scenario client (and the base clients, which went through the restart) equals fresh
	var cls []*envoyclient.Client
	var pidx []int
	nScen := 0
	for _, s := range scens {
		if s.cl == nil {
			continue
		}
		if done, err, pan := s.cl.StreamErr(); done {
			if pan != "" {
				c.Violation(key05+":stream-handler-panic:"+vh.TopIstioFrame(pan), fmt.Sprintf("server stream handler panicked after reconnect in scenario %s: %s", s, firstLine(pan)), nil)
			} else {
				c.Violation(key05+":reconnected-stream-ended:"+s.key(), fmt.Sprintf("scenario %s: the stream opened by the reconnect ended: %v", s, err), map[string]any{"history": histText(hist, len(hist))})
			}
			continue
		}
		if s.armed {
			c.Count("fault_point_never_reached", 1)
		}
		if !s.self {
			cls = append(cls, s.cl)
			pidx = append(pidx, s.Proxy)
		}
		c.SetAdd("scenario_kinds", s.key())
		c.Count("scenarios", 1)
		nScen++
		if st.id != "" {
			c.Count(st.id+"_scenarios", 1)
		}
		if s.missed > 0 && s.heldAtCut > 0 {
			c.Nontrivial(st.id + vh.Hash(histHash(hist), s.String()))
			c.Count("scenarios_with_missed_changes", 1)
			if st.id != "" {
				c.Count(st.id+"_nontrivial", 1)
			}
		}
		resp, opened := s.cl.ResponsesOnStream()
		for t := range opened {
			c.Count("reopened_types", 1)
			if resp[t] > 0 {
				c.Count("reopened_types_answered", 1)
			}
		}
	}
	// evaluations count scenarios (the unit distinct_nontrivial counts); the case itself was counted once
	if nScen > 1 {
		c.AddEvaluations(nScen - 1)
	}
	for pi := range proxies {
		for _, cl := range []*envoyclient.Client{w.sotw[pi], w.delta[pi]} {
			if cl != nil {
				cls = append(cls, cl)
				pidx = append(pidx, pi)
			}
		}
	}
	// nothing may still be warming: on the reconnected streams of the scenario clients, and for the long-lived clients
	for _, s := range scens {
		if s.cl != nil && !s.self {
			w.warmingCheck("c05", "reconnected-stream:"+s.key(), []*envoyclient.Client{s.cl}, func(*envoyclient.Client) string { return s.String() })
		}
	}
	base, _ := w.clients()
	w.warmingCheck("c05", "long-lived", base, nil)
	info := fmt.Sprintf("%s/%d end of history, restartAt=%d", st.reconCase, i, restartAt)
	// label the violation with the scenario of the failing client
	nameToScen := map[string]string{}
	for _, s := range scens {
		if s.cl != nil {
			nameToScen[s.cl.Name] = s.String()
		}
	}
	w.scenInfo = nameToScen
	ncmp, ok := w.checkAgainstFresh(cur, cls, pidx, key05, info)
	if !ok {
		return
	}
	c.Count("resources_compared", ncmp)
	for _, s := range scens {
		if s.cl != nil {
			for _, v := range s.cl.ViolationsCopy() {
				c.Violation(key05+":delta-protocol-sanity", s.cl.Name+": "+v, nil)
			}
			if !s.self {
				s.cl.Disconnect(false)
			}
		}
	}
	c.Count("histories", 1)
	if st.id != "" {
		c.Count(st.id+"_histories", 1)
		cur.pushEvidence(c, st.id)
	}
	if i < 2 {
		var ss []string
		for _, s := range scens[:6] {
			ss = append(ss, s.String())
		}
		c.Sample(map[string]any{"stratum": st.sw, "history": histText(hist, len(hist)), "scenarios": len(scens), "first_scenarios": ss, "restartAt": restartAt})
	}
}
