package main

import (
	"fmt"
	"time"

	"verifharness/internal/envoyclient"
	"verifharness/internal/vh"
)

// scenario is one enumerated way of breaking and re-establishing a client's stream.
type scenario struct {
	Kind       string // init-cut | send-fail | boundary
	N          int    // init-cut: cut after the n-th response; send-fail: fail the n-th send
	Ack        bool   // init-cut: ACK the n-th response before cutting
	Orderly    bool   // boundary: EOF instead of cancel
	StaleNonce bool   // SotW reconnect presents the retained nonces
	Proxy      int
	Delta      bool
	Start      int // batch index before which the scenario starts (client connects / disconnects)
	Away       int // number of batches applied while the client is away

	cl        *envoyclient.Client
	awayTill  int
	away      bool
	armed     bool // fault configured on the live stream but not fired yet
	missed    int  // ops applied while away
	heldAtCut int
}

func (s *scenario) String() string {
	p := "sotw"
	if s.Delta {
		p = "delta"
	}
	return fmt.Sprintf("%s(n=%d,ack=%v,orderly=%v,staleNonce=%v,%s,%s,start=%d,away=%d)", s.Kind, s.N, s.Ack, s.Orderly, s.StaleNonce, proxies[s.Proxy].name, p, s.Start, s.Away)
}

func (s *scenario) key() string {
	p := "sotw"
	if s.Delta {
		p = "delta"
	}
	return fmt.Sprintf("%s:%s", s.Kind, p)
}

func enumerateScenarios(nb int, salt int) []*scenario {
	var out []*scenario
	k := salt
	next := func() (int, bool) {
		k++
		return k % len(proxies), (k/len(proxies))%2 == 1
	}
	mid := nb / 2
	for n := 1; n <= 8; n++ {
		for _, ack := range []bool{true, false} {
			p, d := next()
			out = append(out, &scenario{Kind: "init-cut", N: n, Ack: ack, Proxy: p, Delta: d, Start: (mid + n) % nb, Away: (n + k) % 3, StaleNonce: n%2 == 0})
		}
	}
	for n := 1; n <= 6; n++ {
		p, d := next()
		out = append(out, &scenario{Kind: "send-fail", N: n, Proxy: p, Delta: d, Start: (mid + n + 1) % nb, Away: (n + k) % 2, StaleNonce: n%2 == 1})
	}
	for j := 0; j < nb; j++ {
		p, d := next()
		out = append(out, &scenario{Kind: "boundary", Proxy: p, Delta: d, Start: j, Away: 1 + (j+k)%3, Orderly: j%2 == 0, StaleNonce: j%3 == 0})
	}
	return out
}

func runC05(c *vh.Ctx) {
	n := c.N(18, 200)
	for i := 0; i < n; i++ {
		if !c.Mine(i) {
			continue
		}
		c.Case(fmt.Sprintf("reconnect/%d", i), func() {
			r := c.Rng("reconnect", i)
			hist := genHistory(r, 10+r.Intn(c.N(12, 30)))
			debounce := time.Duration(1+r.Intn(4)) * time.Millisecond
			w := newWorld(c, debounce)
			w.hist = hist
			cur := w.a
			defer func() {
				if cur != w.a {
					cur.f.Done()
				}
				w.close()
			}()
			if !quiesce(cur) {
				c.Inconclusive("initial sync did not quiesce")
				return
			}
			scens := enumerateScenarios(len(hist), i)
			restartAt := -1
			if i%2 == 1 && len(hist) > 2 {
				restartAt = 1 + r.Intn(len(hist)-1)
			}
			// boundary clients live from the start
			for _, s := range scens {
				if s.Kind == "boundary" {
					s.cl = newClient(proxies[s.Proxy], s.Delta, "/"+s.Kind+fmt.Sprint(s.Start))
					s.cl.Connect(cur.srv.Discovery, envoyclient.Fault{}, false)
				}
			}
			if !quiesce(cur) {
				c.Inconclusive("scenario clients did not quiesce")
				return
			}
			held := func(cl *envoyclient.Client) int {
				n := 0
				for _, m := range cl.Snapshot() {
					n += len(m)
				}
				return n
			}
			for bi := 0; bi <= len(hist); bi++ {
				// 1. scheduled scenario starts
				var started []*scenario
				for _, s := range scens {
					if s.Start != bi || bi == len(hist) {
						continue
					}
					switch s.Kind {
					case "init-cut":
						s.cl = newClient(proxies[s.Proxy], s.Delta, fmt.Sprintf("/%s%d-%v", s.Kind, s.N, s.Ack))
						s.cl.Connect(cur.srv.Discovery, envoyclient.Fault{CutAfterResponses: s.N, AckBeforeCut: s.Ack}, false)
						started = append(started, s)
					case "send-fail":
						s.cl = newClient(proxies[s.Proxy], s.Delta, fmt.Sprintf("/%s%d", s.Kind, s.N))
						s.cl.Connect(cur.srv.Discovery, envoyclient.Fault{FailSendAt: s.N}, false)
						started = append(started, s)
					case "boundary":
						s.heldAtCut = held(s.cl)
						s.cl.Disconnect(s.Orderly)
						s.away, s.awayTill = true, bi+s.Away
						c.Count("cuts_at_batch_boundary", 1)
					}
				}
				if len(started) > 0 {
					if !quiesce(cur) {
						c.Inconclusive("fault injection did not quiesce")
						return
					}
					for _, s := range started {
						done, _, pan := s.cl.StreamErr()
						if pan != "" {
							c.Violation("c05:stream-handler-panic:"+vh.TopIstioFrame(pan), fmt.Sprintf("server stream handler panicked in scenario %s: %s", s, firstLine(pan)), nil)
							return
						}
						if !done && s.cl.Connected() {
							// the fault point has not been reached yet (fewer responses than n so far): it stays armed
							s.armed = true
							continue
						}
						s.heldAtCut = held(s.cl)
						s.cl.Disconnect(false)
						s.away, s.awayTill = true, bi+s.Away
						c.Count("cuts_"+s.Kind, 1)
					}
				}
				// 1b. armed faults that fired during the previous batch
				for _, s := range scens {
					if !s.armed || s.cl == nil || s.away {
						continue
					}
					done, _, pan := s.cl.StreamErr()
					if pan != "" {
						c.Violation("c05:stream-handler-panic:"+vh.TopIstioFrame(pan), fmt.Sprintf("server stream handler panicked in scenario %s: %s", s, firstLine(pan)), nil)
						return
					}
					if done || !s.cl.Connected() {
						s.armed = false
						s.heldAtCut = held(s.cl)
						s.cl.Disconnect(false)
						s.away, s.awayTill = true, bi+s.Away
						c.Count("cuts_"+s.Kind+"_mid_push", 1)
					}
				}
				// 2. control-plane restart: everybody reconnects to a server built from the current state
				if bi == restartAt {
					next := newServer(cur.snapshot(), debounce)
					all := append(append([]*envoyclient.Client{}, w.sotw...), w.delta...)
					for _, s := range scens {
						if s.cl != nil && !s.away {
							all = append(all, s.cl)
						}
					}
					for k, cl := range all {
						cl.Disconnect(k%2 == 0)
					}
					for _, s := range scens {
						s.armed = false
					}
					old := cur
					cur = next
					for k, cl := range all {
						cl.Connect(cur.srv.Discovery, envoyclient.Fault{}, k%3 == 0)
					}
					if old != w.a {
						old.f.Done()
					}
					c.Count("control_plane_restarts", 1)
					if !quiesce(cur) {
						c.Inconclusive("restart did not quiesce")
						return
					}
				}
				// 3. reconnects that are due (before the next batch, or at the end)
				for _, s := range scens {
					if s.away && (s.awayTill <= bi || bi == len(hist)) {
						s.away = false
						s.cl.Connect(cur.srv.Discovery, envoyclient.Fault{}, s.StaleNonce)
						c.Count("reconnects", 1)
					}
				}
				if bi == len(hist) {
					break
				}
				// 4. the batch
				w.applyBatch(cur, hist[bi])
				w.applied = bi + 1
				for _, s := range scens {
					if s.away {
						s.missed += len(hist[bi])
					}
				}
				if !quiesce(cur) {
					c.Inconclusive(fmt.Sprintf("batch %d did not quiesce", bi))
					return
				}
				c.Count("batches", 1)
			}
			if !quiesce(cur) {
				c.Inconclusive("final reconnects did not quiesce")
				return
			}
			// oracle: every scenario client (and the base clients, which went through the restart) equals fresh
			var cls []*envoyclient.Client
			var pidx []int
			for _, s := range scens {
				if s.cl == nil {
					continue
				}
				if done, err, pan := s.cl.StreamErr(); done {
					if pan != "" {
						c.Violation("c05:stream-handler-panic:"+vh.TopIstioFrame(pan), fmt.Sprintf("server stream handler panicked after reconnect in scenario %s: %s", s, firstLine(pan)), nil)
					} else {
						c.Violation("c05:reconnected-stream-ended:"+s.key(), fmt.Sprintf("scenario %s: the stream opened by the reconnect ended: %v", s, err), map[string]any{"history": histText(hist, len(hist))})
					}
					continue
				}
				if s.armed {
					c.Count("fault_point_never_reached", 1)
				}
				cls = append(cls, s.cl)
				pidx = append(pidx, s.Proxy)
				c.SetAdd("scenario_kinds", s.key())
				c.Count("scenarios", 1)
				if s.missed > 0 && s.heldAtCut > 0 {
					c.Nontrivial(vh.Hash(histHash(hist), s.String()))
					c.Count("scenarios_with_missed_changes", 1)
				}
				resp, opened := s.cl.ResponsesOnStream()
				for t := range opened {
					c.Count("reopened_types", 1)
					if resp[t] > 0 {
						c.Count("reopened_types_answered", 1)
					}
				}
			}
			for pi := range proxies {
				cls = append(cls, w.sotw[pi], w.delta[pi])
				pidx = append(pidx, pi, pi)
			}
			info := fmt.Sprintf("reconnect/%d end of history, restartAt=%d", i, restartAt)
			// label the violation with the scenario of the failing client
			nameToScen := map[string]string{}
			for _, s := range scens {
				if s.cl != nil {
					nameToScen[s.cl.Name] = s.String()
				}
			}
			w.scenInfo = nameToScen
			ncmp, ok := w.checkAgainstFresh(cur, cls, pidx, "c05", info)
			if !ok {
				return
			}
			c.Count("resources_compared", ncmp)
			for _, s := range scens {
				if s.cl != nil {
					for _, v := range s.cl.ViolationsCopy() {
						c.Violation("c05:delta-protocol-sanity", s.cl.Name+": "+v, nil)
					}
					s.cl.Disconnect(false)
				}
			}
			c.Count("histories", 1)
			if i < 2 {
				var ss []string
				for _, s := range scens[:6] {
					ss = append(ss, s.String())
				}
				c.Sample(map[string]any{"history": histText(hist, len(hist)), "scenarios": len(scens), "first_scenarios": ss, "restartAt": restartAt})
			}
		})
	}
}
