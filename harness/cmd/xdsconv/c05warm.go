package main

// c05warm.go: a directed family of C05 cases ("reconnect-warm/<i>", PRNG stream "reconnect-warm") that
// makes sure the combination behind envoyproxy/envoy#13009 is enumerated and not left to chance: a client
// retains EDS clusters, and while it is away (1) the configuration of a retained cluster changes
// (DestinationRule traffic policy, mesh/namespace PeerAuthentication) AND (2) the cluster set changes
// (ServiceEntry added / removed / ports changed), so that the EDS re-subscription after the reconnect's CDS
// response carries a different name set. Reconnect variants are enumerated per proxy: SotW with the CDS
// request first, SotW with the EDS request for the retained names first, delta; same control plane or a
// restarted one. Oracles: the C01 oracle (fresh control plane), every re-opened type answered, and no
// cluster still warming at quiescence (the client model's Warming()).

import (
	"fmt"
	"math/rand"
	"time"

	"google.golang.org/protobuf/types/known/durationpb"

	networking "istio.io/api/networking/v1alpha3"
	securitybeta "istio.io/api/security/v1beta1"
	"istio.io/istio/pkg/config"
	"istio.io/istio/pkg/config/schema/collections"
	"istio.io/istio/pkg/config/schema/gvk"
	"verifharness/internal/envoyclient"
	"verifharness/internal/vh"
)

var warmCases = [2]int{8, 60} // quick, thorough

type warmGen struct {
	r     *rand.Rand
	ts    int64
	live  map[string]*networking.ServiceEntry // host -> spec (ServiceEntry ns1/se-<host index>)
	seTS  map[string]int64
	drTS  map[string]int64 // host -> creation timestamp of its DestinationRule (0 = none)
	paTS  map[string]int64 // namespace -> creation timestamp of its PeerAuthentication (0 = none)
	hosts []string
}

func (g *warmGen) seName(h string) string { return "se-" + h[:2] }
func (g *warmGen) drName(h string) string { return "dr-" + h[:2] }

func (g *warmGen) seSpec(h string) *networking.ServiceEntry {
	r := g.r
	se := &networking.ServiceEntry{Hosts: []string{h}, Resolution: networking.ServiceEntry_STATIC, Location: networking.ServiceEntry_MESH_INTERNAL,
		Ports: []*networking.ServicePort{{Number: 80, Name: "http", Protocol: "HTTP"}}}
	if r.Intn(2) == 0 {
		se.Ports = append(se.Ports, &networking.ServicePort{Number: 9000, Name: "tcp", Protocol: "TCP"})
	}
	for i, n := 0, 1+r.Intn(2); i < n; i++ {
		se.Endpoints = append(se.Endpoints, &networking.WorkloadEntry{Address: fmt.Sprintf("10.10.%d.%d", r.Intn(3), 1+r.Intn(6)), Labels: map[string]string{"version": pick(r, []string{"v1", "v2"})}})
	}
	return se
}

func (g *warmGen) drSpec(h string) *networking.DestinationRule {
	r := g.r
	dr := &networking.DestinationRule{Host: h}
	switch r.Intn(5) {
	case 0:
		dr.TrafficPolicy = &networking.TrafficPolicy{LoadBalancer: &networking.LoadBalancerSettings{LbPolicy: &networking.LoadBalancerSettings_Simple{
			Simple: pick(r, []networking.LoadBalancerSettings_SimpleLB{networking.LoadBalancerSettings_ROUND_ROBIN, networking.LoadBalancerSettings_RANDOM, networking.LoadBalancerSettings_LEAST_REQUEST})}}}
	case 1:
		dr.TrafficPolicy = &networking.TrafficPolicy{ConnectionPool: &networking.ConnectionPoolSettings{Tcp: &networking.ConnectionPoolSettings_TCPSettings{MaxConnections: int32(10 + r.Intn(90))}}}
	case 2:
		dr.TrafficPolicy = &networking.TrafficPolicy{OutlierDetection: &networking.OutlierDetection{ConsecutiveErrors: int32(1 + r.Intn(5)), BaseEjectionTime: durationpb.New(30 * time.Second)}}
	case 3:
		dr.TrafficPolicy = &networking.TrafficPolicy{Tls: &networking.ClientTLSSettings{Mode: pick(r, []networking.ClientTLSSettings_TLSmode{networking.ClientTLSSettings_DISABLE, networking.ClientTLSSettings_ISTIO_MUTUAL})}}
	default:
		dr.TrafficPolicy = &networking.TrafficPolicy{ConnectionPool: &networking.ConnectionPoolSettings{Tcp: &networking.ConnectionPoolSettings_TCPSettings{ConnectTimeout: durationpb.New(time.Duration(1+r.Intn(9)) * time.Second)}}}
	}
	return dr
}

func (g *warmGen) valid(o op) bool {
	if o.Verb == "delete" {
		return true
	}
	sch, _ := collections.PilotGatewayAPI().FindByGroupVersionKind(o.Kind)
	_, err := sch.ValidateConfig(toConfig(o))
	return err == nil
}

func (g *warmGen) stamp() int64 { g.ts++; return g.ts }

func (g *warmGen) sortedLive() []string { return sortedKeysOf(g.live) }

// createSE / deleteSE / changePorts change the cluster set.
func (g *warmGen) changeSet(avoid string) []op {
	r := g.r
	var dead []string
	for _, h := range g.hosts {
		if g.live[h] == nil {
			dead = append(dead, h)
		}
	}
	liveHosts := g.sortedLive()
	var cands []string
	for _, h := range liveHosts {
		if h != avoid {
			cands = append(cands, h)
		}
	}
	switch x := r.Intn(3); {
	case x == 0 && len(dead) > 0 || len(cands) == 0 && len(dead) > 0:
		h := pick(r, dead)
		g.live[h], g.seTS[h] = g.seSpec(h), g.stamp()
		return []op{{Verb: "create", Kind: gvk.ServiceEntry, NS: "ns1", Name: g.seName(h), Spec: g.live[h], TS: g.seTS[h]}}
	case x == 1 && len(cands) > 0:
		h := pick(r, cands)
		delete(g.live, h)
		return []op{{Verb: "delete", Kind: gvk.ServiceEntry, NS: "ns1", Name: g.seName(h)}}
	case len(cands) > 0:
		// port added / removed: clusters of the host appear / disappear
		h := pick(r, cands)
		se := g.seSpec(h)
		if len(se.Ports) == len(g.live[h].Ports) {
			if len(se.Ports) == 1 {
				se.Ports = append(se.Ports, &networking.ServicePort{Number: 9000, Name: "tcp", Protocol: "TCP"})
			} else {
				se.Ports = se.Ports[:1]
			}
		}
		g.live[h] = se
		return []op{{Verb: "update", Kind: gvk.ServiceEntry, NS: "ns1", Name: g.seName(h), Spec: se, TS: g.seTS[h]}}
	}
	return nil
}

// changeRetained changes the configuration of clusters the clients retain, without changing the cluster set.
func (g *warmGen) changeRetained() (ops []op, host string) {
	r := g.r
	liveHosts := g.sortedLive()
	if len(liveHosts) == 0 {
		return nil, ""
	}
	if r.Intn(4) == 0 {
		// mesh-wide / namespace-wide PeerAuthentication: the transport socket of every in-mesh cluster
		ns := pick(r, []string{rootNS, "ns1"})
		mode := pick(r, []securitybeta.PeerAuthentication_MutualTLS_Mode{securitybeta.PeerAuthentication_MutualTLS_STRICT, securitybeta.PeerAuthentication_MutualTLS_DISABLE, securitybeta.PeerAuthentication_MutualTLS_PERMISSIVE})
		verb := "update"
		if g.paTS[ns] == 0 {
			verb, g.paTS[ns] = "create", g.stamp()
		}
		return []op{{Verb: verb, Kind: gvk.PeerAuthentication, NS: ns, Name: "pa-warm", Spec: &securitybeta.PeerAuthentication{Mtls: &securitybeta.PeerAuthentication_MutualTLS{Mode: mode}}, TS: g.paTS[ns]}}, ""
	}
	h := pick(r, liveHosts)
	switch {
	case g.drTS[h] == 0:
		o := op{Verb: "create", Kind: gvk.DestinationRule, NS: "ns1", Name: g.drName(h), Spec: g.drSpec(h), TS: g.stamp()}
		if !g.valid(o) {
			return nil, h
		}
		g.drTS[h] = o.TS
		return []op{o}, h
	case r.Intn(3) == 0:
		g.drTS[h] = 0
		return []op{{Verb: "delete", Kind: gvk.DestinationRule, NS: "ns1", Name: g.drName(h)}}, h
	}
	o := op{Verb: "update", Kind: gvk.DestinationRule, NS: "ns1", Name: g.drName(h), Spec: g.drSpec(h), TS: g.drTS[h]}
	if !g.valid(o) {
		return nil, h
	}
	return []op{o}, h
}

type warmScen struct {
	proxy    int
	delta    bool
	edsFirst bool
	coalesce bool
	stale    bool
	orderly  bool
	cl       *envoyclient.Client
	held     int
}

func (s *warmScen) key() string {
	k := "warm-boundary:sotw"
	if s.delta {
		k = "warm-boundary:delta"
	}
	if s.edsFirst {
		k += ":eds-first"
	}
	if s.coalesce {
		k += ":coalesced-ack"
	}
	return k
}

func (s *warmScen) String() string {
	return fmt.Sprintf("%s(%s,staleNonce=%v,orderly=%v)", s.key(), proxies[s.proxy].name, s.stale, s.orderly)
}

func runWarmReconnects(c *vh.Ctx) {
	if !stratumC.enabled() {
		return
	}
	n := warmCases[tierIdx(c)]
	for i := 0; i < n; i++ {
		if !c.Mine(i) {
			continue
		}
		c.Case(fmt.Sprintf("reconnect-warm/%d", i), func() { warmReconnectCase(c, i) })
	}
}

func warmReconnectCase(c *vh.Ctx, i int) {
	r := c.Rng("reconnect-warm", i)
	g := &warmGen{r: r, ts: 1700000000, live: map[string]*networking.ServiceEntry{}, seTS: map[string]int64{}, drTS: map[string]int64{}, paTS: map[string]int64{},
		hosts: []string{"w0.example.com", "w1.example.com", "w2.example.com", "w3.example.com", "w4.example.com", "w5.example.com"}}
	debounce := time.Duration(1+r.Intn(4)) * time.Millisecond
	w := newWorld(c, debounce)
	w.caseName = fmt.Sprintf("reconnect-warm/%d", i)
	cur := w.a
	defer func() {
		if cur != w.a {
			cur.f.Done()
		}
		w.close()
	}()
	var hist [][]op
	apply := func(b []op) bool {
		var ok []op
		for _, o := range b {
			if g.valid(o) {
				ok = append(ok, o)
			}
		}
		hist = append(hist, ok)
		w.hist = hist
		w.applyBatch(cur, ok)
		w.applied = len(hist)
		c.Count("batches", 1)
		return quiesce(cur)
	}
	// the world the clients retain: several EDS clusters, some shaped by DestinationRules
	var b0 []op
	for _, h := range g.hosts[:3+r.Intn(3)] {
		g.live[h], g.seTS[h] = g.seSpec(h), g.stamp()
		b0 = append(b0, op{Verb: "create", Kind: gvk.ServiceEntry, NS: "ns1", Name: g.seName(h), Spec: g.live[h], TS: g.seTS[h]})
		if r.Intn(2) == 0 {
			if o := (op{Verb: "create", Kind: gvk.DestinationRule, NS: "ns1", Name: g.drName(h), Spec: g.drSpec(h), TS: g.stamp()}); g.valid(o) {
				g.drTS[h] = o.TS
				b0 = append(b0, o)
			}
		}
	}
	if !quiesce(cur) || !apply(b0) {
		c.Inconclusive("initial world did not quiesce")
		return
	}
	// enumerated reconnect variants per proxy
	var scens []*warmScen
	k := i
	for pi := range proxies {
		for _, v := range []struct{ delta, edsFirst, coalesce bool }{{false, false, false}, {false, true, false}, {false, true, true}, {true, false, false}} {
			k++
			scens = append(scens, &warmScen{proxy: pi, delta: v.delta, edsFirst: v.edsFirst, coalesce: v.coalesce, stale: k%2 == 0, orderly: k%3 == 0})
		}
	}
	for _, s := range scens {
		s.cl = newClient(proxies[s.proxy], s.delta, "/"+s.key())
		s.cl.EDSFirst, s.cl.CoalesceEDSAck = s.edsFirst, s.coalesce
		s.cl.Connect(cur.srv.Discovery, envoyclient.Fault{}, false)
	}
	if !quiesce(cur) {
		c.Inconclusive("scenario clients did not quiesce")
		return
	}
	for _, s := range scens {
		for _, m := range s.cl.Snapshot() {
			s.held += len(m)
		}
		s.cl.Disconnect(s.orderly)
		c.Count("cuts_at_batch_boundary", 1)
	}
	if !quiesce(cur) {
		c.Inconclusive("cuts did not quiesce")
		return
	}
	// while everybody is away: a retained cluster changes AND the cluster set changes (1-2 batches)
	missed := 0
	for j, nb := 0, 1+r.Intn(2); j < nb; j++ {
		// the order inside the batch varies, but operations on one object keep theirs
		chg, host := g.changeRetained()
		set := g.changeSet(host)
		b := append(append([]op{}, chg...), set...)
		if r.Intn(2) == 0 {
			b = append(append([]op{}, set...), chg...)
		}
		if r.Intn(3) == 0 {
			more, _ := g.changeRetained()
			b = append(b, more...)
		}
		missed += len(b)
		if !apply(b) {
			c.Inconclusive("missed batch did not quiesce")
			return
		}
	}
	// same control plane or a restarted one
	restart := i%3 == 2
	if restart {
		next := newServer(cur.snapshot(), debounce)
		base, _ := w.clients()
		for kk, cl := range base {
			cl.Disconnect(kk%2 == 0)
		}
		old := cur
		cur = next
		w.cur = cur
		for kk, cl := range base {
			cl.Connect(cur.srv.Discovery, envoyclient.Fault{}, kk%3 == 0)
		}
		if old != w.a {
			old.f.Done()
		}
		c.Count("control_plane_restarts", 1)
		if !quiesce(cur) {
			c.Inconclusive("restart did not quiesce")
			return
		}
	}
	for _, s := range scens {
		s.cl.Connect(cur.srv.Discovery, envoyclient.Fault{}, s.stale)
		c.Count("reconnects", 1)
	}
	if !quiesce(cur) {
		c.Inconclusive("reconnects did not quiesce")
		return
	}
	// straight after the reconnect, and again after the rest of the history
	check := func(when string) {
		for _, s := range scens {
			w.warmingCheck("c05", "reconnected-stream:"+s.key(), []*envoyclient.Client{s.cl}, func(*envoyclient.Client) string { return s.String() + " " + when })
		}
		base, _ := w.clients()
		w.warmingCheck("c05", "long-lived", base, nil)
	}
	check("after reconnect")
	for j, nb := 0, r.Intn(2); j < nb; j++ {
		chg, host := g.changeRetained()
		if !apply(append(chg, g.changeSet(host)...)) {
			c.Inconclusive("batch did not quiesce")
			return
		}
	}
	check("end of history")
	var cls []*envoyclient.Client
	var pidx []int
	nameToScen := map[string]string{}
	for _, s := range scens {
		if done, err, pan := s.cl.StreamErr(); done {
			if pan != "" {
				c.Violation("c05:stream-handler-panic:"+vh.TopIstioFrame(pan), fmt.Sprintf("server stream handler panicked after reconnect in scenario %s: %s", s, firstLine(pan)), nil)
			} else {
				c.Violation("c05:reconnected-stream-ended:"+s.key(), fmt.Sprintf("scenario %s: the stream opened by the reconnect ended: %v", s, err), map[string]any{"history": histText(hist, len(hist))})
			}
			continue
		}
		cls, pidx = append(cls, s.cl), append(pidx, s.proxy)
		nameToScen[s.cl.Name] = s.String()
		c.SetAdd("scenario_kinds", s.key())
		c.Count("scenarios", 1)
		if missed > 0 && s.held > 0 {
			c.Nontrivial(vh.Hash("reconnect-warm", histHash(hist), s.String()))
			c.Count("scenarios_with_missed_changes", 1)
		}
		resp, opened := s.cl.ResponsesOnStream()
		for t := range opened {
			c.Count("reopened_types", 1)
			if resp[t] > 0 {
				c.Count("reopened_types_answered", 1)
			}
		}
		st := s.cl.StatsCopy()
		c.Count("connects_eds_before_cds", st["connects_eds_before_cds"])
		c.Count("clusters_started_warming", st["clusters_started_warming"])
		c.Count("eds_requests_for_warming_clusters_with_unchanged_names", st["eds_requests_for_warming_clusters_with_unchanged_names"])
		c.Count("eds_acks_held_until_cds_response", st["eds_acks_held_until_cds_response"])
	}
	if len(scens) > 1 {
		c.AddEvaluations(len(scens) - 1)
	}
	for pi := range proxies {
		for _, cl := range []*envoyclient.Client{w.sotw[pi], w.delta[pi]} {
			if cl != nil {
				cls, pidx = append(cls, cl), append(pidx, pi)
			}
		}
	}
	w.scenInfo = nameToScen
	ncmp, ok := w.checkAgainstFresh(cur, cls, pidx, "c05", fmt.Sprintf("reconnect-warm/%d end of history, restart=%v", i, restart))
	if !ok {
		return
	}
	c.Count("resources_compared", ncmp)
	for _, s := range scens {
		for _, v := range s.cl.ViolationsCopy() {
			c.Violation("c05:delta-protocol-sanity", s.cl.Name+": "+v, nil)
		}
		s.cl.Disconnect(false)
	}
	c.Count("histories", 1)
	c.Count("warm_histories", 1)
	if i < 1 {
		c.Sample(map[string]any{"family": "reconnect-warm", "history": histText(hist, len(hist)), "scenarios": len(scens), "restart": restart})
	}
}

var _ = config.Config{}
