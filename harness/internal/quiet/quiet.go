// Package quiet lowers istio's log output so that child logs stay small; panics and
// fatal errors still reach stderr.
package quiet

import (
	istiolog "istio.io/istio/pkg/log"
)

// Logs sets every istio log scope to the given level ("error", "warn", "none").
func Logs(level string) {
	o := istiolog.DefaultOptions()
	lv := istiolog.ErrorLevel
	switch level {
	case "warn":
		lv = istiolog.WarnLevel
	case "none":
		lv = istiolog.NoneLevel
	}
	o.SetDefaultOutputLevel(istiolog.OverrideScopeName, lv)
	_ = istiolog.Configure(o)
}
