package vh

import (
	"bufio"
	"crypto/sha256"
	"encoding/hex"
	"encoding/json"
	"flag"
	"fmt"
	"hash/fnv"
	"math/rand"
	"os"
	"os/exec"
	"path/filepath"
	"regexp"
	"runtime/debug"
	"sort"
	"strconv"
	"strings"
	"sync"
	"syscall"
	"time"
)

const VerifRoot = "/verif"

// outRoot is where run logs, evidence and replay files go; VERIF_OUT redirects it for
// mutant runs against scratch copies so they do not disturb /verif/evidence.
func outRoot() string {
	if v := os.Getenv("VERIF_OUT"); v != "" {
		return v
	}
	return VerifRoot
}

// Prop describes one property check served by an engine binary.
type Prop struct {
	ID               string
	Level            string // evidence level
	Rule             string // how cases are generated and what makes one non-trivial
	Assumptions      []string
	Anchors          []string // path fragments: a race whose both stacks have their innermost istio frame here is a violation
	CrashIsViolation bool     // the property itself says "does not crash"
	MinNontrivial    func(tier string) int
	Batches          func(tier string) int // child processes
	Parallel         func(tier string) int // children alive at once
	TimeoutSec       func(tier string) int // watchdog per child
	Exhaustive       func(tier string) bool
	Env              []string // extra environment for children
	Explanation      string
	Run              func(c *Ctx) // child body
}

// Violation is one refuting observation.
type Violation struct {
	Key    string `json:"key"` // stable key for known-finding bookkeeping
	Msg    string `json:"msg"`
	Case   string `json:"case"`
	Replay any    `json:"replay,omitempty"`
}

// Result is what a child reports.
type Result struct {
	Evaluations  int                 `json:"evaluations"`
	Nontrivial   []string            `json:"nontrivial"` // hashes of distinct non-trivial cases
	Samples      []any               `json:"samples"`
	Violations   []Violation         `json:"violations"`
	Inconclusive []string            `json:"inconclusive"`
	Counters     map[string]int64    `json:"counters"`
	Sets         map[string][]string `json:"sets"`
	Done         bool                `json:"done"`
}

// Ctx is handed to Prop.Run inside a child.
type Ctx struct {
	Prop   *Prop
	Tier   string
	Seed   int64
	Batch  int
	NBatch int
	Only   string // replay filter: run only the case with this description

	mu       sync.Mutex
	res      Result
	nt       map[string]bool
	sets     map[string]map[string]bool
	out      string
	lastSave time.Time
	curCase  string
}

// Quick reports whether the tier is quick.
func (c *Ctx) Quick() bool { return c.Tier != "thorough" }

// N picks a size by tier.
func (c *Ctx) N(quick, thorough int) int {
	if c.Quick() {
		return quick
	}
	return thorough
}

// Mine reports whether global case index i belongs to this batch.
func (c *Ctx) Mine(i int) bool { return i%c.NBatch == c.Batch }

// Rng returns the PRNG of global case index i in the named stream; independent of batching
// and of which other cases run, so quick is a prefix of thorough and replay can skip cases.
func (c *Ctx) Rng(stream string, i int) *rand.Rand {
	h := fnv.New64a()
	fmt.Fprintf(h, "%s|%s|%d|%d", c.Prop.ID, stream, c.Seed, i)
	return rand.New(rand.NewSource(int64(h.Sum64())))
}

// Case runs one case. The description is logged before it starts so a crash is attributable.
// It returns false when the case was skipped by a replay filter.
func (c *Ctx) Case(desc string, fn func()) bool {
	if c.Only != "" && c.Only != desc {
		return false
	}
	c.mu.Lock()
	c.curCase = desc
	c.res.Evaluations++
	c.mu.Unlock()
	fmt.Fprintf(os.Stderr, "CASE %s\n", desc)
	func() {
		defer func() {
			if r := recover(); r != nil {
				if ff, ok := r.(FailerFatal); ok {
					c.Inconclusive("failer fatal: " + ff.Msg)
					return
				}
				if hp, ok := r.(HarnessPanic); ok {
					c.Inconclusive("harness: " + hp.Msg)
					return
				}
				// a panic out of the code under test on the case goroutine
				st := string(debug.Stack())
				fmt.Fprintf(os.Stderr, "CASE-PANIC %s: %v\n%s\n", desc, r, st)
				if c.Prop.CrashIsViolation {
					c.Violation("panic:"+TopIstioFrame(st), fmt.Sprintf("panic: %v", r), map[string]any{"stack": firstLines(st, 40)})
				} else {
					c.mu.Lock()
					c.res.Counters["harness_panics"]++
					c.mu.Unlock()
					c.Inconclusive(fmt.Sprintf("panic (not a crash property): %v at %s", r, TopIstioFrame(st)))
				}
			}
		}()
		fn()
	}()
	c.maybeSave(false)
	return true
}

// HarnessPanic can be thrown by harness code to abandon a case as inconclusive.
type HarnessPanic struct{ Msg string }

func Abort(format string, args ...any) { panic(HarnessPanic{Msg: fmt.Sprintf(format, args...)}) }

func firstLines(s string, n int) string {
	l := strings.Split(s, "\n")
	if len(l) > n {
		l = l[:n]
	}
	return strings.Join(l, "\n")
}

// TopIstioFrame finds the innermost istio.io/istio function in a stack text.
func TopIstioFrame(st string) string {
	for _, l := range strings.Split(st, "\n") {
		l = strings.TrimSpace(l)
		if strings.HasPrefix(l, "istio.io/istio/") {
			// "pkg.(*T).method(0xc000..., ...)": cut the argument list, keep the receiver
			f := l
			if i := strings.LastIndex(f, "("); i > 0 {
				f = f[:i]
			}
			if i := strings.IndexAny(f, " \t"); i > 0 {
				f = f[:i]
			}
			return f
		}
	}
	return "unknown"
}

// AddEvaluations counts n further evaluations inside the current case, for engines whose unit of
// evaluation (checkpoint, scenario, proxy pair ...) is finer than a Case; use it so that
// evaluations and distinct_nontrivial count the same unit.
func (c *Ctx) AddEvaluations(n int) {
	c.mu.Lock()
	c.res.Evaluations += n
	c.mu.Unlock()
}

// Nontrivial marks the case identified by hash as non-trivial by the property's rule.
func (c *Ctx) Nontrivial(hash string) {
	c.mu.Lock()
	defer c.mu.Unlock()
	if !c.nt[hash] {
		c.nt[hash] = true
		c.res.Nontrivial = append(c.res.Nontrivial, hash)
	}
}

// Hash is a short stable digest for case identity.
func Hash(parts ...any) string {
	h := sha256.New()
	for _, p := range parts {
		switch v := p.(type) {
		case string:
			h.Write([]byte(v))
		case []byte:
			h.Write(v)
		default:
			b, _ := json.Marshal(v)
			h.Write(b)
		}
		h.Write([]byte{0})
	}
	return hex.EncodeToString(h.Sum(nil))[:16]
}

func (c *Ctx) Violation(key, msg string, replay any) {
	key = strings.Join(strings.Fields(key), "_")
	c.mu.Lock()
	defer c.mu.Unlock()
	fmt.Fprintf(os.Stderr, "VIOL key=%s case=%s: %s\n", key, c.curCase, msg)
	c.res.Counters["violations_raw"]++
	// keep at most 5 witnesses per key per child
	n := 0
	for _, v := range c.res.Violations {
		if v.Key == key {
			n++
		}
	}
	if n >= 5 {
		return
	}
	c.res.Violations = append(c.res.Violations, Violation{Key: key, Msg: msg, Case: c.curCase, Replay: replay})
}

func (c *Ctx) Inconclusive(note string) {
	c.mu.Lock()
	defer c.mu.Unlock()
	fmt.Fprintf(os.Stderr, "INCONCLUSIVE case=%s: %s\n", c.curCase, note)
	c.res.Counters["inconclusive"]++
	if len(c.res.Inconclusive) < 20 {
		c.res.Inconclusive = append(c.res.Inconclusive, c.curCase+": "+note)
	}
}

func (c *Ctx) Count(name string, n int) {
	c.mu.Lock()
	c.res.Counters[name] += int64(n)
	c.mu.Unlock()
}

// Max records the maximum seen for a counter.
func (c *Ctx) Max(name string, n int) {
	c.mu.Lock()
	if int64(n) > c.res.Counters["max:"+name] {
		c.res.Counters["max:"+name] = int64(n)
	}
	c.mu.Unlock()
}

// SetAdd adds a value to a named set of distinct observations (merged by union in the parent).
func (c *Ctx) SetAdd(name, val string) {
	c.mu.Lock()
	defer c.mu.Unlock()
	m := c.sets[name]
	if m == nil {
		m = map[string]bool{}
		c.sets[name] = m
	}
	if len(m) < 5000 {
		m[val] = true
	}
}

// Sample records an actual case for the evidence file (first three per child are kept).
func (c *Ctx) Sample(v any) {
	c.mu.Lock()
	defer c.mu.Unlock()
	if len(c.res.Samples) < 3 {
		c.res.Samples = append(c.res.Samples, v)
	}
}

func (c *Ctx) maybeSave(final bool) {
	c.mu.Lock()
	defer c.mu.Unlock()
	if !final && time.Since(c.lastSave) < 2*time.Second {
		return
	}
	c.lastSave = time.Now()
	c.res.Done = final
	c.res.Sets = map[string][]string{}
	for k, m := range c.sets {
		for v := range m {
			c.res.Sets[k] = append(c.res.Sets[k], v)
		}
		sort.Strings(c.res.Sets[k])
	}
	b, err := json.Marshal(&c.res)
	if err != nil {
		fmt.Fprintf(os.Stderr, "result marshal: %v\n", err)
		// drop unmarshalable replay payloads rather than lose the verdict
		for i := range c.res.Violations {
			c.res.Violations[i].Replay = fmt.Sprint(c.res.Violations[i].Replay)
		}
		c.res.Samples = nil
		b, _ = json.Marshal(&c.res)
	}
	tmp := c.out + ".tmp"
	if err := os.WriteFile(tmp, b, 0o644); err == nil {
		_ = os.Rename(tmp, c.out)
	}
}

// ---------------------------------------------------------------------------------------

func envInt(name string, def int64) int64 {
	if v := os.Getenv(name); v != "" {
		if n, err := strconv.ParseInt(v, 10, 64); err == nil {
			return n
		}
	}
	return def
}

// Main is the entry point of every engine binary.
func Main(props ...Prop) {
	var (
		propID = flag.String("prop", "", "property id")
		tier   = flag.String("tier", "quick", "quick|thorough")
		child  = flag.Bool("child", false, "internal: run as child")
		batch  = flag.Int("batch", 0, "internal")
		nbatch = flag.Int("nbatch", 1, "internal")
		out    = flag.String("out", "", "internal")
		replay = flag.String("replay", "", "replay file written by an earlier violation")
		seedF  = flag.Int64("seed", -1, "override VERIF_SEED")
	)
	flag.Parse()
	seed := envInt("VERIF_SEED", 1)
	if *seedF >= 0 {
		seed = *seedF
	}
	var p *Prop
	for i := range props {
		if props[i].ID == *propID {
			p = &props[i]
		}
	}
	if p == nil {
		fmt.Fprintf(os.Stderr, "unknown property %q\n", *propID)
		os.Exit(2)
	}
	if *tier != "quick" && *tier != "thorough" {
		fmt.Fprintf(os.Stderr, "bad tier %q\n", *tier)
		os.Exit(2)
	}
	if *child {
		runChild(p, *tier, seed, *batch, *nbatch, *out, os.Getenv("VERIF_ONLY_CASE"))
		return
	}
	if *replay != "" {
		os.Exit(runReplay(p, *replay))
	}
	os.Exit(runParent(p, *tier, seed))
}

func runChild(p *Prop, tier string, seed int64, batch, nbatch int, out, only string) {
	c := &Ctx{Prop: p, Tier: tier, Seed: seed, Batch: batch, NBatch: nbatch, Only: only, out: out,
		nt: map[string]bool{}, sets: map[string]map[string]bool{}}
	c.res.Counters = map[string]int64{}
	c.lastSave = time.Now()
	p.Run(c)
	c.maybeSave(true)
	os.Exit(0)
}

type replayFile struct {
	Property string    `json:"property"`
	Tier     string    `json:"tier"`
	Seed     int64     `json:"seed"`
	Batch    int       `json:"batch"`
	NBatch   int       `json:"nbatch"`
	V        Violation `json:"violation"`
}

func runReplay(p *Prop, path string) int {
	b, err := os.ReadFile(path)
	if err != nil {
		fmt.Fprintln(os.Stderr, err)
		return 2
	}
	var rf replayFile
	if err := json.Unmarshal(b, &rf); err != nil {
		fmt.Fprintln(os.Stderr, err)
		return 2
	}
	dir := filepath.Join(outRoot(), "run", p.ID, "replay")
	_ = os.MkdirAll(dir, 0o755)
	outf := filepath.Join(dir, "result.json")
	_ = os.Remove(outf)
	cmd := exec.Command(os.Args[0], "-child", "-prop", p.ID, "-tier", rf.Tier, "-seed", fmt.Sprint(rf.Seed),
		"-batch", fmt.Sprint(rf.Batch), "-nbatch", fmt.Sprint(rf.NBatch), "-out", outf)
	cmd.Env = append(append(os.Environ(), p.Env...), "VERIF_ONLY_CASE="+rf.V.Case)
	cmd.Stdout = os.Stderr
	cmd.Stderr = os.Stderr
	_ = cmd.Run()
	var res Result
	if b, err := os.ReadFile(outf); err == nil {
		_ = json.Unmarshal(b, &res)
	}
	for _, v := range res.Violations {
		fmt.Printf("VIOLATION property=%s replay=%s\n", p.ID, path)
		fmt.Printf("  key=%s %s\n", v.Key, v.Msg)
		return 1
	}
	fmt.Printf("replay of %s: no violation reproduced (evaluations=%d)\n", rf.V.Case, res.Evaluations)
	return 0
}

type childOutcome struct {
	batch    int
	res      Result
	haveRes  bool
	exitErr  error
	timedOut bool
	log      string
}

func tierFn(f func(string) int, tier string, def int) int {
	if f == nil {
		return def
	}
	if n := f(tier); n > 0 {
		return n
	}
	return def
}

func runParent(p *Prop, tier string, seed int64) int {
	start := time.Now()
	nb := tierFn(p.Batches, tier, 1)
	par := tierFn(p.Parallel, tier, 4)
	tmo := tierFn(p.TimeoutSec, tier, 600)
	runDir := filepath.Join(outRoot(), "run", p.ID)
	_ = os.RemoveAll(runDir)
	_ = os.MkdirAll(runDir, 0o755)
	_ = os.MkdirAll(filepath.Join(outRoot(), "evidence"), 0o755)
	_ = os.MkdirAll(filepath.Join(outRoot(), "replay"), 0o755)

	outcomes := make([]childOutcome, nb)
	sem := make(chan struct{}, par)
	var wg sync.WaitGroup
	for b := 0; b < nb; b++ {
		wg.Add(1)
		go func(b int) {
			defer wg.Done()
			sem <- struct{}{}
			defer func() { <-sem }()
			outcomes[b] = runOneChild(p, tier, seed, b, nb, tmo, runDir)
		}(b)
	}
	wg.Wait()

	// merge
	merged := Result{Counters: map[string]int64{}}
	nt := map[string]bool{}
	sets := map[string]map[string]bool{}
	harnessErrors := []string{}
	var viols []Violation
	for _, o := range outcomes {
		if o.haveRes {
			merged.Evaluations += o.res.Evaluations
			for _, h := range o.res.Nontrivial {
				nt[h] = true
			}
			if len(merged.Samples) < 3 {
				for _, s := range o.res.Samples {
					if len(merged.Samples) < 3 {
						merged.Samples = append(merged.Samples, s)
					}
				}
			}
			viols = append(viols, o.res.Violations...)
			merged.Inconclusive = append(merged.Inconclusive, o.res.Inconclusive...)
			for k, v := range o.res.Counters {
				if strings.HasPrefix(k, "max:") {
					if v > merged.Counters[k] {
						merged.Counters[k] = v
					}
				} else {
					merged.Counters[k] += v
				}
			}
			for k, vs := range o.res.Sets {
				if sets[k] == nil {
					sets[k] = map[string]bool{}
				}
				for _, v := range vs {
					sets[k][v] = true
				}
			}
		}
		if o.haveRes && o.res.Done && o.exitErr == nil {
			continue
		}
		// child did not finish cleanly
		lastCase := lastCaseOf(o.log)
		switch {
		case o.timedOut:
			merged.Counters["inconclusive"]++
			merged.Counters["watchdog_fired"]++
			merged.Inconclusive = append(merged.Inconclusive, fmt.Sprintf("batch %d: watchdog fired during case %q", o.batch, lastCase))
		case logHas(o.log, FailerMarker):
			harnessErrors = append(harnessErrors, fmt.Sprintf("batch %d: failer fatal in case %q (see %s)", o.batch, lastCase, o.log))
		default:
			top, headline := crashInfo(o.log)
			if p.CrashIsViolation {
				viols = append(viols, Violation{Key: "crash:" + top, Msg: "child process crashed: " + headline, Case: lastCase,
					Replay: map[string]any{"log": o.log}})
			} else {
				harnessErrors = append(harnessErrors, fmt.Sprintf("batch %d: child crashed in case %q: %s at %s (see %s)", o.batch, lastCase, headline, top, o.log))
			}
		}
	}

	// races
	races := collectRaces(runDir, p.Anchors)
	merged.Counters["races_in_anchor"] = 0
	merged.Counters["races_outside_anchor"] = 0
	for _, r := range races {
		if r.inAnchor {
			merged.Counters["races_in_anchor"]++
			viols = append(viols, Violation{Key: "race:" + r.key, Msg: "data race inside anchored code: " + r.key, Case: "race",
				Replay: map[string]any{"report": r.text}})
		} else {
			merged.Counters["races_outside_anchor"]++
		}
	}

	// known findings
	kf := loadKnownFindings(p.ID)
	exit := 0
	printedKF := map[string]bool{}
	printedV := map[string]int{}
	nViol := 0
	for i, v := range viols {
		if what, ok := matchKnown(kf, v.Key); ok {
			if !printedKF[v.Key] {
				printedKF[v.Key] = true
				fmt.Printf("KNOWN-FINDING: property=%s key=%s %s\n", p.ID, v.Key, oneLine(what, 300))
			}
			merged.Counters["known_finding_witnesses"]++
			continue
		}
		nViol++
		exit = 1
		if os.Getenv("VERIF_ALL_KEYS") == "" && (printedV[v.Key] >= 2 || len(printedV) >= 15 && printedV[v.Key] == 0) {
			continue
		}
		if os.Getenv("VERIF_ALL_KEYS") != "" && printedV[v.Key] >= 1 {
			printedV[v.Key]++
			continue
		}
		printedV[v.Key]++
		rp := filepath.Join(outRoot(), "replay", fmt.Sprintf("%s-%s-s%d-%d.json", p.ID, tier, seed, i))
		rf := replayFile{Property: p.ID, Tier: tier, Seed: seed, NBatch: nb, V: v}
		for _, o := range outcomes {
			for _, ov := range o.res.Violations {
				if ov.Case == v.Case && ov.Key == v.Key {
					rf.Batch = o.batch
				}
			}
		}
		b, _ := json.MarshalIndent(&rf, "", " ")
		_ = os.WriteFile(rp, b, 0o644)
		fmt.Printf("VIOLATION property=%s replay=%s\n", p.ID, rp)
		fmt.Printf("  key=%s case=%s: %s\n", v.Key, v.Case, oneLine(v.Msg, 400))
	}

	// evidence
	setCounts := map[string]any{}
	for k, m := range sets {
		vals := make([]string, 0, len(m))
		for v := range m {
			vals = append(vals, v)
		}
		sort.Strings(vals)
		ent := map[string]any{"distinct": len(vals)}
		if len(vals) > 40 {
			ent["first"] = vals[:40]
		} else {
			ent["values"] = vals
		}
		setCounts[k] = ent
	}
	cov := map[string]any{
		"evaluations":         merged.Evaluations,
		"distinct_nontrivial": len(nt),
		"rule":                p.Rule,
		"samples":             merged.Samples,
		"children":            nb,
		"inconclusive":        merged.Counters["inconclusive"],
		"inconclusive_notes":  capStrings(merged.Inconclusive, 10),
		"counters":            merged.Counters,
		"observed_sets":       setCounts,
		"harness_errors":      harnessErrors,
	}
	if p.Exhaustive != nil && p.Exhaustive(tier) {
		cov["exhaustive"] = true
	}
	if p.Explanation != "" {
		cov["explanation"] = p.Explanation
	}
	if merged.Samples == nil {
		cov["samples"] = []any{}
	}
	assumptions := p.Assumptions
	if assumptions == nil {
		assumptions = []string{}
	}
	ev := map[string]any{
		"property_id": p.ID,
		"tier":        tier,
		"seed":        seed,
		"level":       p.Level,
		"coverage":    cov,
		"assumptions": assumptions,
		"wall_s":      time.Since(start).Seconds(),
		"violations":  nViol,
	}
	b, _ := json.MarshalIndent(ev, "", " ")
	_ = os.WriteFile(filepath.Join(outRoot(), "evidence", p.ID+".json"), b, 0o644)

	fmt.Printf("%s %s seed=%d: evaluations=%d distinct_nontrivial=%d inconclusive=%d violations=%d known=%d races(anchor/other)=%d/%d wall=%.0fs\n",
		p.ID, tier, seed, merged.Evaluations, len(nt), merged.Counters["inconclusive"], nViol, merged.Counters["known_finding_witnesses"],
		merged.Counters["races_in_anchor"], merged.Counters["races_outside_anchor"], time.Since(start).Seconds())
	keys := make([]string, 0, len(merged.Counters))
	for k := range merged.Counters {
		keys = append(keys, k)
	}
	sort.Strings(keys)
	for _, k := range keys {
		fmt.Printf("  %s=%d\n", k, merged.Counters[k])
	}
	for k, m := range sets {
		fmt.Printf("  |%s|=%d\n", k, len(m))
	}
	if exit == 1 {
		return 1
	}
	if len(harnessErrors) > 0 {
		for _, h := range harnessErrors {
			fmt.Printf("HARNESS-ERROR: %s\n", h)
		}
		return 3
	}
	floor := tierFn(p.MinNontrivial, tier, 2)
	if len(nt) < floor {
		fmt.Printf("BROKEN-CHECK: only %d distinct non-trivial cases observed (floor %d); verdict withheld\n", len(nt), floor)
		return 4
	}
	return 0
}

func capStrings(s []string, n int) []string {
	if len(s) > n {
		return s[:n]
	}
	if s == nil {
		return []string{}
	}
	return s
}

func oneLine(s string, n int) string {
	s = strings.ReplaceAll(s, "\n", " | ")
	if len(s) > n {
		s = s[:n] + "…"
	}
	return s
}

func runOneChild(p *Prop, tier string, seed int64, b, nb, tmoSec int, runDir string) childOutcome {
	o := childOutcome{batch: b}
	outf := filepath.Join(runDir, fmt.Sprintf("result.%d.json", b))
	logf := filepath.Join(runDir, fmt.Sprintf("child.%d.log", b))
	o.log = logf
	lf, err := os.Create(logf)
	if err != nil {
		o.exitErr = err
		return o
	}
	defer lf.Close()
	cmd := exec.Command(os.Args[0], "-child", "-prop", p.ID, "-tier", tier, "-seed", fmt.Sprint(seed),
		"-batch", fmt.Sprint(b), "-nbatch", fmt.Sprint(nb), "-out", outf)
	cmd.Env = append(os.Environ(), "GORACE=halt_on_error=0 exitcode=0 log_path="+filepath.Join(runDir, fmt.Sprintf("race.%d", b)))
	cmd.Env = append(cmd.Env, p.Env...)
	cmd.Stdout = lf
	cmd.Stderr = lf
	cmd.SysProcAttr = &syscall.SysProcAttr{Setpgid: true}
	if err := cmd.Start(); err != nil {
		o.exitErr = err
		return o
	}
	done := make(chan error, 1)
	go func() { done <- cmd.Wait() }()
	select {
	case err := <-done:
		o.exitErr = err
	case <-time.After(time.Duration(tmoSec) * time.Second):
		o.timedOut = true
		_ = cmd.Process.Signal(syscall.SIGQUIT) // goroutine dump into the log
		select {
		case <-done:
		case <-time.After(10 * time.Second):
			_ = syscall.Kill(-cmd.Process.Pid, syscall.SIGKILL)
			<-done
		}
		o.exitErr = fmt.Errorf("watchdog")
	}
	if rb, err := os.ReadFile(outf); err == nil {
		if json.Unmarshal(rb, &o.res) == nil {
			o.haveRes = true
		}
	}
	return o
}

func lastCaseOf(logf string) string {
	f, err := os.Open(logf)
	if err != nil {
		return ""
	}
	defer f.Close()
	last := ""
	sc := bufio.NewScanner(f)
	sc.Buffer(make([]byte, 1<<20), 1<<24)
	for sc.Scan() {
		if strings.HasPrefix(sc.Text(), "CASE ") {
			last = strings.TrimPrefix(sc.Text(), "CASE ")
		}
	}
	return last
}

func logHas(logf, marker string) bool {
	b, err := os.ReadFile(logf)
	return err == nil && strings.Contains(string(b), marker)
}

// crashInfo extracts the innermost istio frame of the crashing goroutine and the headline.
func crashInfo(logf string) (top, headline string) {
	b, err := os.ReadFile(logf)
	if err != nil {
		return "unknown", "no log"
	}
	s := string(b)
	idx := -1
	for _, m := range []string{"panic: ", "fatal error: ", "SIGSEGV"} {
		if i := strings.Index(s, m); i >= 0 && (idx < 0 || i < idx) {
			idx = i
		}
	}
	if idx < 0 {
		return "unknown", "child exited abnormally without panic text"
	}
	rest := s[idx:]
	headline = oneLine(firstLines(rest, 2), 300)
	// the first goroutine block after the headline belongs to the crashing goroutine
	return TopIstioFrame(rest), headline
}

// ---------------------------------------------------------------------------------------
// race reports

type raceReport struct {
	key      string
	inAnchor bool
	text     string
}

var fileLineRe = regexp.MustCompile(`^\s+(/\S+\.go):(\d+)`)

func collectRaces(runDir string, anchors []string) []raceReport {
	files, _ := filepath.Glob(filepath.Join(runDir, "race.*"))
	seen := map[string]bool{}
	var out []raceReport
	for _, f := range files {
		b, err := os.ReadFile(f)
		if err != nil {
			continue
		}
		blocks := strings.Split(string(b), "==================")
		for _, blk := range blocks {
			if !strings.Contains(blk, "WARNING: DATA RACE") {
				continue
			}
			r := classifyRace(blk, anchors)
			if seen[r.key] {
				continue
			}
			seen[r.key] = true
			out = append(out, r)
		}
	}
	return out
}

// classifyRace looks at the two access stacks (the sections before "Goroutine … created at").
func classifyRace(blk string, anchors []string) raceReport {
	lines := strings.Split(blk, "\n")
	var stacks [][]string // function names
	var files [][]string
	cur := -1
	for i := 0; i < len(lines); i++ {
		l := lines[i]
		t := strings.TrimSpace(l)
		if strings.HasPrefix(t, "Goroutine ") && strings.Contains(t, "created at") {
			break
		}
		if strings.HasPrefix(t, "Read at") || strings.HasPrefix(t, "Write at") || strings.HasPrefix(t, "Previous read at") ||
			strings.HasPrefix(t, "Previous write at") || strings.HasPrefix(t, "Atomic") || strings.HasPrefix(t, "Previous atomic") {
			stacks = append(stacks, nil)
			files = append(files, nil)
			cur = len(stacks) - 1
			continue
		}
		if cur < 0 || t == "" {
			continue
		}
		if m := fileLineRe.FindStringSubmatch(l); m != nil {
			files[cur] = append(files[cur], m[1])
		} else {
			stacks[cur] = append(stacks[cur], strings.TrimSuffix(t, "()"))
		}
	}
	r := raceReport{text: firstLines(blk, 60)}
	var inner []string
	all := true
	for i := range stacks {
		fn, file := "?", ""
		for j := range stacks[i] {
			f := ""
			if j < len(files[i]) {
				f = files[i][j]
			}
			if strings.Contains(f, "/repo/") || strings.HasPrefix(stacks[i][j], "istio.io/istio/") {
				fn, file = stacks[i][j], f
				break
			}
		}
		inner = append(inner, fn)
		ok := false
		for _, a := range anchors {
			if a != "" && strings.Contains(file, a) {
				ok = true
			}
		}
		if !ok {
			all = false
		}
	}
	sort.Strings(inner)
	r.key = strings.Join(inner, "<->")
	r.inAnchor = all && len(stacks) >= 2 && len(anchors) > 0
	return r
}

// ---------------------------------------------------------------------------------------
// known findings: /verif/known-findings.txt, read-only at run time.
//   finding: property=C17 key=<key> <what fails>
//   fixed: property=C04 <commit> <what failed>       (suppresses nothing)

// matchKnown looks a violation key up: exact match, or a listed key ending in '*' that is a
// prefix of it (a trigger-delimited family, e.g. "idempotency:user-override-of-injected-container:*").
func matchKnown(kf map[string]string, key string) (string, bool) {
	if w, ok := kf[key]; ok {
		return w, true
	}
	for k, w := range kf {
		if strings.HasSuffix(k, "*") && strings.HasPrefix(key, strings.TrimSuffix(k, "*")) {
			return w, true
		}
	}
	return "", false
}

func loadKnownFindings(prop string) map[string]string {
	out := map[string]string{}
	// VERIF_DEV_KNOWN_EXTRA: development aid for engine authors who may not edit known-findings.txt:
	// a second file in the same format, announced loudly so that it can never go unnoticed in a real run.
	paths := []string{filepath.Join(VerifRoot, "known-findings.txt")}
	if x := os.Getenv("VERIF_DEV_KNOWN_EXTRA"); x != "" {
		fmt.Printf("DEV-ONLY: additional known findings read from %s (not a registered run)\n", x)
		paths = append(paths, x)
	}
	for _, path := range paths {
		loadKnownFindingsFrom(path, prop, out)
	}
	return out
}

func loadKnownFindingsFrom(path, prop string, out map[string]string) {
	f, err := os.Open(path)
	if err != nil {
		return
	}
	defer f.Close()
	sc := bufio.NewScanner(f)
	sc.Buffer(make([]byte, 1<<20), 1<<24)
	for sc.Scan() {
		l := strings.TrimSpace(sc.Text())
		if !strings.HasPrefix(l, "finding:") {
			continue
		}
		fs := strings.Fields(strings.TrimPrefix(l, "finding:"))
		if len(fs) < 2 || fs[0] != "property="+prop || !strings.HasPrefix(fs[1], "key=") {
			continue
		}
		out[strings.TrimPrefix(fs[1], "key=")] = strings.Join(fs[2:], " ")
	}
}
