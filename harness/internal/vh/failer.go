// Package vh is the shared core of the verification harness: process isolation,
// case bookkeeping, evidence and known-finding handling.
package vh

import (
	"fmt"
	"os"
	"sync"
)

// FailerFatal is the panic value used by F.Fatal. Ctx.Case recovers it (same goroutine) and
// counts the case as inconclusive; on any other goroutine it ends the child, and the parent
// recognises the marker line on stderr and treats the batch as a harness error, never as a
// violation.
type FailerFatal struct{ Msg string }

const FailerMarker = "VERIF-FAILER-FATAL"

// F implements istio's pkg/test.Failer for use from a plain main package.
type F struct {
	mu       sync.Mutex
	cleanups []func()
	Quiet    bool
}

func NewF() *F { return &F{Quiet: true} }

func (f *F) Fail()    { f.Fatal("Fail called") }
func (f *F) FailNow() { f.Fatal("FailNow called") }
func (f *F) Fatal(args ...any) {
	msg := fmt.Sprint(args...)
	fmt.Fprintf(os.Stderr, "%s: %s\n", FailerMarker, msg)
	panic(FailerFatal{Msg: msg})
}
func (f *F) Fatalf(format string, args ...any) { f.Fatal(fmt.Sprintf(format, args...)) }
func (f *F) Log(args ...any) {
	if !f.Quiet {
		fmt.Fprintln(os.Stderr, args...)
	}
}

func (f *F) Logf(format string, args ...any) {
	if !f.Quiet {
		fmt.Fprintf(os.Stderr, format+"\n", args...)
	}
}

func (f *F) TempDir() string {
	d, err := os.MkdirTemp("", "verif")
	if err != nil {
		f.Fatal(err)
	}
	f.Cleanup(func() { os.RemoveAll(d) })
	return d
}
func (f *F) Helper() {}
func (f *F) Cleanup(fn func()) {
	f.mu.Lock()
	f.cleanups = append(f.cleanups, fn)
	f.mu.Unlock()
}
func (f *F) Skip(args ...any) { f.Fatal(append([]any{"skip: "}, args...)...) }

// Done runs the registered cleanups in reverse order (like testing.T).
func (f *F) Done() {
	for {
		f.mu.Lock()
		n := len(f.cleanups)
		if n == 0 {
			f.mu.Unlock()
			return
		}
		fn := f.cleanups[n-1]
		f.cleanups = f.cleanups[:n-1]
		f.mu.Unlock()
		func() {
			defer func() { _ = recover() }()
			fn()
		}()
	}
}
