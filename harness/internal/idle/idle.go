// Package idle decides process-wide quiescence logically from stop-the-world goroutine
// snapshots (runtime.Stack(all) stops the world, so a snapshot is consistent): the process
// is idle when every goroutine other than the caller is parked in a state that only another
// goroutine can end (channel receive / select / sync.Cond.Wait), apart from background
// goroutines without istio or harness frames that sit in the kernel or on a timer.
// Goroutines parked in a select that also waits on a timer (debouncers) are covered by the
// caller's additional logical condition (e.g. accepted == committed updates), not here.
// (Approach first built for the krt monitor; shared here for the xDS engines.)
package idle

import (
	"runtime"
	"strings"
	"time"
)

var idleStates = map[string]bool{
	"chan receive":            true,
	"select":                  true,
	"sync.Cond.Wait":          true,
	"chan receive (nil chan)": true,
	"select (no cases)":       true,
	"sync.WaitGroup.Wait":     true,
}

// Tolerated lists substrings of stacks of periodic pollers that never go away (found
// empirically, each documented where it is added); a goroutine in "sleep" whose stack
// contains one of them does not keep the process busy.
var Tolerated []string

// TimerWaits lists stack substrings of goroutines that are parked in a select/receive on a
// timer and will wake by themselves: such a goroutine keeps the process busy although its
// state looks parked (rate limiter waits, retry/backoff loops).
var TimerWaits = []string{
	"golang.org/x/time/rate.(*Limiter).wait",
	"istio.io/istio/pkg/backoff.",
	"istio.io/istio/pkg/test/util/retry.",
}

// Snapshot reports whether the process is idle right now, the number of goroutines seen and,
// if busy, the first goroutine that keeps it busy.
func Snapshot(buf *[]byte) (idle bool, n int, why string) {
	for {
		m := runtime.Stack(*buf, true)
		if m < len(*buf) {
			return parse(string((*buf)[:m]))
		}
		*buf = make([]byte, 2*len(*buf))
	}
}

func parse(dump string) (bool, int, string) {
	blocks := strings.Split(dump, "\n\n")
	n := 0
	for i, b := range blocks {
		if i == 0 {
			continue // the caller
		}
		if !strings.HasPrefix(b, "goroutine ") {
			continue
		}
		relevant := strings.Contains(b, "istio.io/istio/") || strings.Contains(b, "verifharness/") || strings.Contains(b, "\nmain.") || strings.Contains(b, "created by main.")
		n++
		hdr := b
		if j := strings.IndexByte(b, '\n'); j >= 0 {
			hdr = b[:j]
		}
		lb, rb := strings.IndexByte(hdr, '['), strings.LastIndexByte(hdr, ']')
		if lb < 0 || rb < lb {
			return false, n, "unparsable header: " + hdr
		}
		state := hdr[lb+1 : rb]
		if j := strings.IndexByte(state, ','); j >= 0 {
			state = state[:j]
		}
		if idleStates[state] {
			timer := false
			for _, t := range TimerWaits {
				if strings.Contains(b, t) {
					timer = true
				}
			}
			if timer && relevant {
				return false, n, "timer wait\n" + b
			}
			continue
		}
		if !relevant && (state == "syscall" || state == "IO wait" || state == "sleep") {
			continue
		}
		if state == "sleep" || state == "IO wait" || state == "syscall" {
			tol := false
			for _, t := range Tolerated {
				if strings.Contains(b, t) {
					tol = true
				}
			}
			if tol {
				continue
			}
		}
		return false, n, "state " + state + "\n" + b
	}
	return true, n, ""
}

// Wait spins until cond() holds and a snapshot is idle, twice in a row. cond may be nil.
// It returns false (and the reason) when the watchdog fired: inconclusive, never a verdict.
func Wait(cond func() bool, watchdog time.Duration) (bool, string) {
	buf := make([]byte, 1<<20)
	deadline := time.Now().Add(watchdog)
	streak := 0
	why := ""
	for spin := 0; ; spin++ {
		ok := cond == nil || cond()
		if ok {
			var idle bool
			idle, _, why = Snapshot(&buf)
			ok = idle && (cond == nil || cond())
		} else {
			why = "condition not met"
		}
		if ok {
			streak++
			if streak >= 2 {
				return true, ""
			}
			runtime.Gosched()
			continue
		}
		streak = 0
		if time.Now().After(deadline) {
			return false, why
		}
		if spin < 20 {
			runtime.Gosched()
		} else {
			d := spin
			if d > 200 {
				d = 200
			}
			time.Sleep(time.Duration(d) * 20 * time.Microsecond)
		}
	}
}
