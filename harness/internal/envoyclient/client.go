// Package envoyclient holds xDS client models written from the xDS protocol specification
// (not from istio code): a state-of-the-world ADS client and an incremental (delta) ADS
// client that behave as Envoy does — ACK every response, derive the EDS and RDS
// subscriptions from the clusters and listeners they hold, drop what is no longer
// referenced, and on reconnect present what they retained.
package envoyclient

import (
	"fmt"
	"os"
	"sort"
	"sync"
	"sync/atomic"

	clusterv3 "github.com/envoyproxy/go-control-plane/envoy/config/cluster/v3"
	corev3 "github.com/envoyproxy/go-control-plane/envoy/config/core/v3"
	listenerv3 "github.com/envoyproxy/go-control-plane/envoy/config/listener/v3"
	hcmv3 "github.com/envoyproxy/go-control-plane/envoy/extensions/filters/network/http_connection_manager/v3"
	discovery "github.com/envoyproxy/go-control-plane/envoy/service/discovery/v3"
	"google.golang.org/protobuf/proto"
	"google.golang.org/protobuf/types/known/anypb"

	"istio.io/istio/pilot/pkg/xds"
	"verifharness/internal/xdsshim"
)

const (
	CDS = "type.googleapis.com/envoy.config.cluster.v3.Cluster"
	EDS = "type.googleapis.com/envoy.config.endpoint.v3.ClusterLoadAssignment"
	LDS = "type.googleapis.com/envoy.config.listener.v3.Listener"
	RDS = "type.googleapis.com/envoy.config.route.v3.RouteConfiguration"
)

var Types = []string{CDS, EDS, LDS, RDS}

// Trace prints every delta response (debugging aid).
var Trace = os.Getenv("XDSCONV_TRACE") != ""

func Short(t string) string {
	switch t {
	case CDS:
		return "CDS"
	case EDS:
		return "EDS"
	case LDS:
		return "LDS"
	case RDS:
		return "RDS"
	}
	return t
}

// Fault describes what to do to the stream at a chosen point.
type Fault struct {
	// CutAfterResponses > 0: cancel the stream right after the n-th response (counted from this
	// connection's start) has been applied; AckBeforeCut says whether that response is still ACKed.
	CutAfterResponses int
	AckBeforeCut      bool
	// FailSendAt > 0: the n-th Send on this connection returns an error to the server (the
	// response is NOT applied by the client).
	FailSendAt int
}

// Client is one xDS client (one proxy). Its state survives reconnects.
type Client struct {
	Name  string
	Node  *corev3.Node
	Delta bool

	mu         sync.Mutex
	held       map[string]map[string]*anypb.Any // type -> name -> resource
	versions   map[string]map[string]string     // delta: type -> name -> version
	lastVer    map[string]string                // sotw: version_info of the last response per type
	lastNonce  map[string]string
	subscribed map[string]map[string]bool // EDS, RDS: names requested
	opened     map[string]bool            // types for which a request was sent on the current stream
	responses  map[string]int             // responses received per type on the current stream
	sends      int
	applied    int
	fault      Fault
	connected  bool
	Violations []string // protocol sanity violations observed by the delta client
	Stats      map[string]int

	// EDSFirst makes the next Connect send the EDS request for retained names before the CDS request
	// (the order in which Envoy's requests may reach the server on a reconnect, envoy#13009).
	EDSFirst bool
	// CoalesceEDSAck (SotW, meaningful with EDSFirst): the ACK of an EDS response that arrives before the stream's
	// first CDS response is held back and coalesced with the EDS request that follows the CDS response — Envoy
	// pauses EDS discovery requests while a CDS update is applied and on resume sends ONE request carrying the
	// latest nonce and the current name list. The first EDS request the server sees after the CDS request is then
	// the re-subscription itself (possibly with a different name set), not a plain ACK.
	CoalesceEDSAck bool
	heldEDSAck     bool
	// warming: EDS-type clusters that a CDS response created or changed and for which no
	// ClusterLoadAssignment has arrived since. Envoy keeps such a cluster (and, at start-up, everything
	// behind it) in warming until the endpoints arrive; istio configures no EDS initial_fetch_timeout.
	warming         map[string]bool
	forceEDSRequest bool

	sotw  *xdsshim.SotwStream
	delta *xdsshim.DeltaStream

	inbox   []any
	inboxMu sync.Mutex
	inboxCv *sync.Cond
	closed  atomic.Bool
	loopWG  sync.WaitGroup
}

func New(name string, node *corev3.Node, delta bool) *Client {
	c := &Client{Name: name, Node: node, Delta: delta,
		held: map[string]map[string]*anypb.Any{}, versions: map[string]map[string]string{}, lastVer: map[string]string{}, lastNonce: map[string]string{},
		subscribed: map[string]map[string]bool{}, opened: map[string]bool{}, responses: map[string]int{}, Stats: map[string]int{}, warming: map[string]bool{}}
	for _, t := range Types {
		c.held[t] = map[string]*anypb.Any{}
		c.versions[t] = map[string]string{}
	}
	c.subscribed[EDS] = map[string]bool{}
	c.subscribed[RDS] = map[string]bool{}
	c.inboxCv = sync.NewCond(&c.inboxMu)
	return c
}

// Connect opens a new stream to the server and sends the opening requests. retained says
// whether the client presents what it holds (reconnect) — always true for a client that holds
// something. staleNonce makes a SotW client present its last nonces on the new stream (a
// client is allowed to; Envoy sends them empty).
func (c *Client) Connect(ds *xds.DiscoveryServer, fault Fault, staleNonce bool) {
	c.mu.Lock()
	c.fault = fault
	c.sends, c.applied = 0, 0
	c.heldEDSAck = false
	c.opened = map[string]bool{}
	c.responses = map[string]int{}
	c.connected = true
	c.closed.Store(false)
	c.inboxMu.Lock()
	c.inbox = nil
	c.inboxMu.Unlock()
	if c.Delta {
		st := xdsshim.NewDelta(nil, nil)
		st.OnSend = func(r *discovery.DeltaDiscoveryResponse) error { return c.onSend(st, r) }
		c.delta, c.sotw = st, nil
		st.Serve(ds)
	} else {
		st := xdsshim.NewSotw(nil, nil)
		st.OnSend = func(r *discovery.DiscoveryResponse) error { return c.onSend(st, r) }
		c.sotw, c.delta = st, nil
		st.Serve(ds)
	}
	c.mu.Unlock()
	c.loopWG.Add(1)
	go c.loop(c.streamID())
	// opening requests, as Envoy sends them on a (re)connect: CDS, then EDS for retained names, LDS, RDS for retained names
	c.mu.Lock()
	defer c.mu.Unlock()
	first := true
	order := Types
	if c.EDSFirst && len(c.subscribed[EDS]) > 0 {
		order = []string{EDS}
		for _, t := range Types {
			if t != EDS {
				order = append(order, t)
			}
		}
		c.Stats["connects_eds_before_cds"]++
	}
	for _, t := range order {
		if (t == EDS || t == RDS) && len(c.subscribed[t]) == 0 {
			continue
		}
		c.sendOpening(t, first, staleNonce)
		first = false
	}
}

func (c *Client) streamID() any {
	if c.Delta {
		return c.delta
	}
	return c.sotw
}

func (c *Client) sendOpening(t string, withNode bool, staleNonce bool) {
	c.opened[t] = true
	if c.Delta {
		r := &discovery.DeltaDiscoveryRequest{TypeUrl: t}
		if withNode {
			r.Node = c.Node
		}
		if t == EDS || t == RDS {
			r.ResourceNamesSubscribe = sortedKeys(c.subscribed[t])
		}
		if len(c.versions[t]) > 0 {
			r.InitialResourceVersions = map[string]string{}
			for n, v := range c.versions[t] {
				r.InitialResourceVersions[n] = v
			}
		}
		c.delta.Request(r)
		return
	}
	r := &discovery.DiscoveryRequest{TypeUrl: t, VersionInfo: c.lastVer[t]}
	if withNode {
		r.Node = c.Node
	}
	if staleNonce {
		r.ResponseNonce = c.lastNonce[t]
	}
	if t == EDS || t == RDS {
		r.ResourceNames = sortedKeys(c.subscribed[t])
	}
	c.sotw.Request(r)
}

// onSend runs on the server's stream goroutine.
func (c *Client) onSend(st any, r any) error {
	c.mu.Lock()
	if st != c.streamID() {
		c.mu.Unlock()
		return fmt.Errorf("stale stream")
	}
	c.sends++
	if c.fault.FailSendAt > 0 && c.sends >= c.fault.FailSendAt {
		c.Stats["send_failures_injected"]++
		c.mu.Unlock()
		return fmt.Errorf("injected send failure")
	}
	c.mu.Unlock()
	c.inboxMu.Lock()
	c.inbox = append(c.inbox, inboxItem{st: st, r: r})
	c.inboxCv.Signal()
	c.inboxMu.Unlock()
	return nil
}

type inboxItem struct {
	st any
	r  any
}

func (c *Client) loop(st any) {
	defer c.loopWG.Done()
	for {
		c.inboxMu.Lock()
		for len(c.inbox) == 0 && !c.closed.Load() {
			c.inboxCv.Wait()
		}
		if c.closed.Load() {
			c.inboxMu.Unlock()
			return
		}
		it := c.inbox[0].(inboxItem)
		c.inbox = c.inbox[1:]
		c.inboxMu.Unlock()
		if it.st != st {
			continue
		}
		c.mu.Lock()
		if st != c.streamID() || !c.connected {
			c.mu.Unlock()
			return
		}
		switch r := it.r.(type) {
		case *discovery.DiscoveryResponse:
			c.applySotw(r)
		case *discovery.DeltaDiscoveryResponse:
			c.applyDelta(r)
		}
		c.mu.Unlock()
	}
}

// Disconnect ends the current stream abruptly (context cancel) or orderly (EOF); state is kept.
func (c *Client) Disconnect(orderly bool) {
	c.mu.Lock()
	c.disconnectLocked(orderly)
	c.mu.Unlock()
	c.closed.Store(true)
	c.inboxMu.Lock()
	c.inboxCv.Broadcast()
	c.inboxMu.Unlock()
	c.loopWG.Wait()
}

func (c *Client) disconnectLocked(orderly bool) {
	if !c.connected {
		return
	}
	c.connected = false
	if c.Delta {
		if orderly {
			c.delta.CloseSend()
		} else {
			c.delta.Cancel()
		}
	} else {
		if orderly {
			c.sotw.CloseSend()
		} else {
			c.sotw.Cancel()
		}
	}
}

// Disarm removes a fault that has not fired yet from the current stream (the point it was armed for was
// never reached); later responses are applied normally.
func (c *Client) Disarm() {
	c.mu.Lock()
	c.fault = Fault{}
	c.mu.Unlock()
}

// Connected reports whether the client believes its stream is up; StreamDone whether the
// server handler has returned.
func (c *Client) Connected() bool {
	c.mu.Lock()
	defer c.mu.Unlock()
	return c.connected
}

func (c *Client) StreamErr() (done bool, err error, panicked string) {
	c.mu.Lock()
	defer c.mu.Unlock()
	var d <-chan struct{}
	if c.Delta {
		if c.delta == nil {
			return false, nil, ""
		}
		d = c.delta.Done()
	} else {
		if c.sotw == nil {
			return false, nil, ""
		}
		d = c.sotw.Done()
	}
	select {
	case <-d:
		if c.Delta {
			return true, c.delta.Err(), c.delta.Panicked()
		}
		return true, c.sotw.Err(), c.sotw.Panicked()
	default:
		return false, nil, ""
	}
}

func (c *Client) cutIfDue(ackFirst func()) bool {
	c.applied++
	if c.fault.CutAfterResponses > 0 && c.applied == c.fault.CutAfterResponses {
		if c.fault.AckBeforeCut {
			ackFirst()
		}
		c.Stats["cuts_injected"]++
		c.disconnectLocked(false)
		return true
	}
	return false
}

// ---------------------------------------------------------------------------------------
// state of the world

func (c *Client) applySotw(r *discovery.DiscoveryResponse) {
	t := r.TypeUrl
	if _, known := c.held[t]; !known {
		return
	}
	c.responses[t]++
	c.Stats["responses_"+Short(t)]++
	c.lastVer[t], c.lastNonce[t] = r.VersionInfo, r.Nonce
	prevCDS := c.held[CDS]
	switch t {
	case CDS, LDS: // the response is the complete set
		c.held[t] = map[string]*anypb.Any{}
		for _, a := range r.Resources {
			c.held[t][xdsshim.ResourceName(a)] = a
		}
	default: // EDS, RDS: upsert
		for _, a := range r.Resources {
			c.held[t][xdsshim.ResourceName(a)] = a
		}
	}
	if Trace {
		var ns []string
		for _, a := range r.Resources {
			ns = append(ns, xdsshim.ResourceName(a))
		}
		fmt.Printf("TRACE sotw-response client=%s type=%s nonce=%s resources=%v\n", c.Name, Short(t), r.Nonce, ns)
	}
	warmedNow := false
	switch t {
	case CDS:
		warmedNow = c.noteClusters(prevCDS)
	case EDS:
		for _, a := range r.Resources {
			delete(c.warming, xdsshim.ResourceName(a))
		}
	}
	ack := func() { c.ackSotw(t) }
	if t == EDS && c.CoalesceEDSAck && c.opened[CDS] && c.responses[CDS] == 0 {
		ack = func() {
			c.heldEDSAck = true
			c.Stats["eds_acks_held_until_cds_response"]++
		}
	}
	if c.cutIfDue(ack) {
		return
	}
	ack()
	switch t {
	case CDS:
		if warmedNow {
			// a new or changed EDS cluster starts a new EDS subscription: Envoy sends an EDS request even when the
			// name list is unchanged (it then looks like an ACK to the server)
			c.forceEDSRequest = true
		}
		sent := c.resubscribe(EDS, edsNames(c.held[CDS]))
		if c.heldEDSAck {
			c.heldEDSAck = false
			if !sent && len(c.subscribed[EDS]) > 0 {
				c.ackSotw(EDS) // nothing to coalesce with: the held ACK goes out as it is
			}
		}
	case LDS:
		c.resubscribe(RDS, rdsNames(c.held[LDS]))
	}
}

func (c *Client) ackSotw(t string) {
	r := &discovery.DiscoveryRequest{TypeUrl: t, VersionInfo: c.lastVer[t], ResponseNonce: c.lastNonce[t]}
	if t == EDS || t == RDS {
		r.ResourceNames = sortedKeys(c.subscribed[t])
	}
	c.sotw.Request(r)
}

// resubscribe aligns the EDS/RDS subscription with what the parent resources reference and
// drops resources that are no longer referenced.
// resubscribe reports whether a request was sent.
func (c *Client) resubscribe(t string, want map[string]bool) bool {
	force := false
	if t == EDS {
		force, c.forceEDSRequest = c.forceEDSRequest && !c.Delta && len(want) > 0, false
	}
	cur := c.subscribed[t]
	var add, del []string
	for n := range want {
		if !cur[n] {
			add = append(add, n)
		}
	}
	for n := range cur {
		if !want[n] {
			del = append(del, n)
		}
	}
	for n := range c.held[t] {
		if !want[n] {
			delete(c.held[t], n)
			delete(c.versions[t], n)
		}
	}
	if len(add) == 0 && len(del) == 0 && c.opened[t] {
		if force {
			c.Stats["eds_requests_for_warming_clusters_with_unchanged_names"]++
			nonce := ""
			if c.responses[t] > 0 {
				nonce = c.lastNonce[t]
			}
			c.sotw.Request(&discovery.DiscoveryRequest{TypeUrl: t, VersionInfo: c.lastVer[t], ResponseNonce: nonce, ResourceNames: sortedKeys(want)})
			return true
		}
		return false
	}
	if len(add) == 0 && len(del) == 0 && len(want) == 0 {
		return false
	}
	sort.Strings(add)
	sort.Strings(del)
	c.subscribed[t] = want
	c.Stats["subscription_changes_"+Short(t)]++
	if c.Delta {
		r := &discovery.DeltaDiscoveryRequest{TypeUrl: t, ResourceNamesSubscribe: add, ResourceNamesUnsubscribe: del}
		if !c.opened[t] {
			r.ResourceNamesSubscribe = sortedKeys(want)
			r.ResourceNamesUnsubscribe = nil
		}
		c.opened[t] = true
		c.delta.Request(r)
		return true
	}
	c.opened[t] = true
	// SotW: the full list with the last nonce seen on this stream (empty list = unsubscribe)
	nonce := ""
	if c.responses[t] > 0 {
		nonce = c.lastNonce[t]
	}
	c.sotw.Request(&discovery.DiscoveryRequest{TypeUrl: t, VersionInfo: c.lastVer[t], ResponseNonce: nonce, ResourceNames: sortedKeys(want)})
	return true
}

// ---------------------------------------------------------------------------------------
// delta

func (c *Client) applyDelta(r *discovery.DeltaDiscoveryResponse) {
	t := r.TypeUrl
	if _, known := c.held[t]; !known {
		return
	}
	c.responses[t]++
	c.Stats["responses_"+Short(t)]++
	c.lastNonce[t] = r.Nonce
	inRes := map[string]bool{}
	var prevCDS map[string]*anypb.Any
	if t == CDS {
		prevCDS = map[string]*anypb.Any{}
		for n, a := range c.held[CDS] {
			prevCDS[n] = a
		}
	}
	for _, res := range r.Resources {
		inRes[res.Name] = true
		c.held[t][res.Name] = res.Resource
		c.versions[t][res.Name] = res.Version
		if t == EDS {
			delete(c.warming, res.Name)
		}
	}
	for _, n := range r.RemovedResources {
		if inRes[n] {
			c.Violations = append(c.Violations, fmt.Sprintf("%s response names %q both in resources and in removed_resources", Short(t), n))
		}
		if _, ok := c.held[t][n]; ok {
			c.Stats["delta_removed_held_"+Short(t)]++
		}
		delete(c.held[t], n)
		delete(c.versions[t], n)
	}
	if len(r.RemovedResources) > 0 {
		c.Stats["delta_responses_with_removals"]++
	}
	if t == CDS {
		c.noteClusters(prevCDS)
	}
	if Trace {
		var ns []string
		for _, res := range r.Resources {
			ns = append(ns, res.Name)
		}
		fmt.Printf("TRACE delta-response client=%s type=%s resources=%v removed=%v\n", c.Name, Short(t), ns, r.RemovedResources)
	}
	ack := func() { c.delta.Request(&discovery.DeltaDiscoveryRequest{TypeUrl: t, ResponseNonce: r.Nonce}) }
	if c.cutIfDue(ack) {
		return
	}
	ack()
	switch t {
	case CDS:
		c.resubscribe(EDS, edsNames(c.held[CDS]))
	case LDS:
		c.resubscribe(RDS, rdsNames(c.held[LDS]))
	}
}

// noteClusters updates the warming set after a CDS response was applied: an EDS-type cluster that is new
// to this client or whose configuration changed starts warming; clusters that are gone stop mattering.
// It reports whether some cluster started warming.
func (c *Client) noteClusters(prev map[string]*anypb.Any) bool {
	cur := edsNames(c.held[CDS])
	for n := range c.warming {
		if !cur[n] {
			delete(c.warming, n)
		}
	}
	started := false
	for n := range cur {
		old, had := prev[n]
		if !had || !proto.Equal(old, c.held[CDS][n]) {
			if !c.warming[n] {
				c.Stats["clusters_started_warming"]++
			}
			c.warming[n] = true
			started = true
		}
	}
	return started
}

// Warming returns the EDS clusters that a CDS response created or changed and that have not been given a
// ClusterLoadAssignment since (sorted).
func (c *Client) Warming() []string {
	c.mu.Lock()
	defer c.mu.Unlock()
	return sortedKeys(c.warming)
}

// ---------------------------------------------------------------------------------------
// views

// Snapshot returns a copy of what the client holds: type -> name -> resource. EDS and RDS are
// restricted to names the parent resources still reference (anything else is garbage by protocol).
func (c *Client) Snapshot() map[string]map[string]*anypb.Any {
	c.mu.Lock()
	defer c.mu.Unlock()
	out := map[string]map[string]*anypb.Any{}
	refE, refR := edsNames(c.held[CDS]), rdsNames(c.held[LDS])
	for t, m := range c.held {
		out[t] = map[string]*anypb.Any{}
		for n, a := range m {
			if (t == EDS && !refE[n]) || (t == RDS && !refR[n]) {
				continue
			}
			out[t][n] = a
		}
	}
	return out
}

// Referenced returns the EDS / RDS names the held clusters / listeners reference.
func (c *Client) Referenced() (eds, rds map[string]bool) {
	c.mu.Lock()
	defer c.mu.Unlock()
	return edsNames(c.held[CDS]), rdsNames(c.held[LDS])
}

// ResponsesOnStream returns how many responses per type arrived on the current stream, and
// which types were (re)opened on it.
func (c *Client) ResponsesOnStream() (responses map[string]int, opened map[string]bool) {
	c.mu.Lock()
	defer c.mu.Unlock()
	responses, opened = map[string]int{}, map[string]bool{}
	for k, v := range c.responses {
		responses[k] = v
	}
	for k, v := range c.opened {
		opened[k] = v
	}
	return
}

func (c *Client) StatsCopy() map[string]int {
	c.mu.Lock()
	defer c.mu.Unlock()
	out := map[string]int{}
	for k, v := range c.Stats {
		out[k] = v
	}
	return out
}

func (c *Client) ViolationsCopy() []string {
	c.mu.Lock()
	defer c.mu.Unlock()
	return append([]string(nil), c.Violations...)
}

func sortedKeys(m map[string]bool) []string {
	out := make([]string, 0, len(m))
	for k := range m {
		out = append(out, k)
	}
	sort.Strings(out)
	return out
}

func edsNames(clusters map[string]*anypb.Any) map[string]bool {
	out := map[string]bool{}
	for _, a := range clusters {
		cl := &clusterv3.Cluster{}
		if proto.Unmarshal(a.Value, cl) != nil {
			continue
		}
		if cl.GetType() == clusterv3.Cluster_EDS {
			n := cl.GetEdsClusterConfig().GetServiceName()
			if n == "" {
				n = cl.Name
			}
			out[n] = true
		}
	}
	return out
}

func rdsNames(listeners map[string]*anypb.Any) map[string]bool {
	out := map[string]bool{}
	for _, a := range listeners {
		l := &listenerv3.Listener{}
		if proto.Unmarshal(a.Value, l) != nil {
			continue
		}
		chains := append([]*listenerv3.FilterChain{}, l.FilterChains...)
		if l.DefaultFilterChain != nil {
			chains = append(chains, l.DefaultFilterChain)
		}
		for _, fc := range chains {
			for _, f := range fc.Filters {
				tc := f.GetTypedConfig()
				if tc == nil || tc.TypeUrl != "type.googleapis.com/envoy.extensions.filters.network.http_connection_manager.v3.HttpConnectionManager" {
					continue
				}
				h := &hcmv3.HttpConnectionManager{}
				if proto.Unmarshal(tc.Value, h) != nil {
					continue
				}
				if n := h.GetRds().GetRouteConfigName(); n != "" {
					out[n] = true
				}
			}
		}
	}
	return out
}
