// Package ztunnelclient is a model of the ambient node proxy (ztunnel) as an xDS client, written from
// the protocol documented at pilot/pkg/xds/workload.go (WorkloadGenerator.GenerateDeltas), the delta
// xDS specification and architecture/ambient/ztunnel.md — not from generator code:
//
//   - ztunnel speaks incremental (delta) xDS only and consumes two types: Address
//     (type.googleapis.com/istio.workload.Address; a Workload or a Service) and Authorization
//     (type.googleapis.com/istio.security.Authorization);
//   - a wildcard client subscribes "*" and is sent everything, with delta updates;
//   - an on-demand client first subscribes and unsubscribes "*" in one request (delta xDS cannot express
//     "subscribed to nothing" otherwise), then subscribes explicit names: workload UIDs, "network/ip" keys,
//     or service "namespace/hostname" keys. Responses are always Address resources named by UID /
//     "namespace/hostname", possibly more than was asked for (a service's workloads, node-local workloads),
//     with the keys they answer listed in Resource.aliases; a key nothing is known about is answered in
//     removed_resources;
//   - every response is applied (resources upserted by name, removed_resources deleted) and ACKed;
//   - on reconnect the client presents initial_resource_versions for everything it holds and re-sends its
//     subscriptions; the server removes what ceased to exist meanwhile and may skip what is unchanged.
//
// The client never drops a resource by itself: whatever it holds was sent and never removed by the server.
package ztunnelclient

import (
	"fmt"
	"os"
	"sort"
	"sync"
	"sync/atomic"

	corev3 "github.com/envoyproxy/go-control-plane/envoy/config/core/v3"
	discovery "github.com/envoyproxy/go-control-plane/envoy/service/discovery/v3"
	"google.golang.org/protobuf/types/known/anypb"

	"istio.io/istio/pilot/pkg/xds"
	"verifharness/internal/xdsshim"
)

const (
	AddressType       = "type.googleapis.com/istio.workload.Address"
	AuthorizationType = "type.googleapis.com/istio.security.Authorization"
)

var Types = []string{AddressType, AuthorizationType}

func Short(t string) string {
	switch t {
	case AddressType:
		return "WDS"
	case AuthorizationType:
		return "WAUTH"
	}
	return t
}

// Trace prints every response (debugging aid).
var Trace = os.Getenv("XDSCONV_TRACE") != ""

// Fault describes what to do to the stream at a chosen point (same meaning as envoyclient.Fault).
type Fault struct {
	CutAfterResponses int
	AckBeforeCut      bool
	FailSendAt        int
}

// Held is one resource as the client holds it.
type Held struct {
	Resource *anypb.Any
	Version  string
	Aliases  []string
}

// Client is one ztunnel. Its state survives reconnects.
type Client struct {
	Name     string
	Node     *corev3.Node
	OnDemand bool // false: wildcard subscription to Address

	mu         sync.Mutex
	held       map[string]map[string]Held // type -> resource name -> resource
	subs       map[string]bool            // on-demand: Address names currently subscribed
	opened     map[string]bool
	responses  map[string]int
	sends      int
	applied    int
	fault      Fault
	connected  bool
	Violations []string
	Stats      map[string]int
	// removedOnStream: names listed in removed_resources on the current stream, per type
	removedOnStream map[string]map[string]bool
	// removedByEmpty: Address names whose last removal came in a response that carried no resources at all
	removedByEmpty map[string]bool
	// subscribedWhileHeld: names that were subscribed while a resource of that very name was already held, i.e. the
	// server had sent it unasked (as a related resource) and tracks it for the connection already
	subscribedWhileHeld map[string]bool
	// dropped: names the client unsubscribed explicitly and has not subscribed again. Whether a server keeps sending such a
	// resource because it is related to another subscription (member of a subscribed service) is not documented.
	dropped map[string]bool

	stream *xdsshim.DeltaStream

	inbox   []inboxItem
	inboxMu sync.Mutex
	inboxCv *sync.Cond
	closed  atomic.Bool
	loopWG  sync.WaitGroup
}

type inboxItem struct {
	st *xdsshim.DeltaStream
	r  *discovery.DeltaDiscoveryResponse
}

func New(name string, node *corev3.Node, onDemand bool) *Client {
	c := &Client{Name: name, Node: node, OnDemand: onDemand, held: map[string]map[string]Held{}, subs: map[string]bool{},
		opened: map[string]bool{}, responses: map[string]int{}, Stats: map[string]int{}, removedOnStream: map[string]map[string]bool{}, removedByEmpty: map[string]bool{}, subscribedWhileHeld: map[string]bool{}, dropped: map[string]bool{}}
	for _, t := range Types {
		c.held[t] = map[string]Held{}
	}
	c.inboxCv = sync.NewCond(&c.inboxMu)
	return c
}

// Connect opens a new stream and sends the opening requests: Address first (with the node), then
// Authorization; both present initial_resource_versions for what is held (a reconnect).
func (c *Client) Connect(ds *xds.DiscoveryServer, fault Fault) {
	c.mu.Lock()
	c.fault = fault
	c.sends, c.applied = 0, 0
	c.opened = map[string]bool{}
	c.responses = map[string]int{}
	c.removedOnStream = map[string]map[string]bool{}
	c.connected = true
	c.closed.Store(false)
	c.inboxMu.Lock()
	c.inbox = nil
	c.inboxMu.Unlock()
	st := xdsshim.NewDelta(nil, nil)
	st.OnSend = func(r *discovery.DeltaDiscoveryResponse) error { return c.onSend(st, r) }
	c.stream = st
	st.Serve(ds)
	reconnect := len(c.held[AddressType])+len(c.held[AuthorizationType]) > 0
	if reconnect {
		c.Stats["reconnects_with_initial_resource_versions"]++
	}
	c.mu.Unlock()
	c.loopWG.Add(1)
	go c.loop(st)

	c.mu.Lock()
	defer c.mu.Unlock()
	for i, t := range Types {
		r := &discovery.DeltaDiscoveryRequest{TypeUrl: t}
		if i == 0 {
			r.Node = c.Node
		}
		r.ResourceNamesSubscribe = []string{"*"}
		if t == AddressType && c.OnDemand {
			// "subscribe to nothing", then the names wanted
			r.ResourceNamesUnsubscribe = []string{"*"}
			r.ResourceNamesSubscribe = append(r.ResourceNamesSubscribe, sortedKeys(c.subs)...)
		}
		if len(c.held[t]) > 0 {
			r.InitialResourceVersions = map[string]string{}
			for n, h := range c.held[t] {
				r.InitialResourceVersions[n] = h.Version
			}
		}
		c.opened[t] = true
		st.Request(r)
	}
}

// Subscribe adds Address names to an on-demand client's subscription (a spontaneous request).
func (c *Client) Subscribe(names ...string) {
	c.mu.Lock()
	defer c.mu.Unlock()
	var add []string
	for _, n := range names {
		if !c.subs[n] {
			c.subs[n] = true
			delete(c.dropped, n)
			add = append(add, n)
			if _, ok := c.held[AddressType][n]; ok {
				c.subscribedWhileHeld[n] = true
				c.Stats["ondemand_names_subscribed_while_already_held"]++
			}
		}
	}
	if len(add) == 0 || !c.connected {
		return
	}
	sort.Strings(add)
	c.Stats["ondemand_subscribe_requests"]++
	c.Stats["ondemand_names_subscribed"] += len(add)
	if Trace {
		fmt.Printf("TRACE ztunnel-request client=%s subscribe=%v\n", c.Name, add)
	}
	c.stream.Request(&discovery.DeltaDiscoveryRequest{TypeUrl: AddressType, ResourceNamesSubscribe: add})
}

// Unsubscribe drops Address names from an on-demand client's subscription. Nothing is evicted locally: a
// resource may still be wanted through another subscription (a workload through its service or address), and
// nothing is asserted about resources no subscription stands for.
func (c *Client) Unsubscribe(names ...string) {
	c.mu.Lock()
	defer c.mu.Unlock()
	var del []string
	for _, n := range names {
		if c.subs[n] {
			delete(c.subs, n)
			delete(c.subscribedWhileHeld, n)
			c.dropped[n] = true
			del = append(del, n)
		}
	}
	if len(del) == 0 || !c.connected {
		return
	}
	sort.Strings(del)
	c.Stats["ondemand_unsubscribe_requests"]++
	if Trace {
		fmt.Printf("TRACE ztunnel-request client=%s unsubscribe=%v\n", c.Name, del)
	}
	c.stream.Request(&discovery.DeltaDiscoveryRequest{TypeUrl: AddressType, ResourceNamesUnsubscribe: del})
}

// onSend runs on the server's stream goroutine.
func (c *Client) onSend(st *xdsshim.DeltaStream, r *discovery.DeltaDiscoveryResponse) error {
	c.mu.Lock()
	if st != c.stream {
		c.mu.Unlock()
		return fmt.Errorf("stale stream")
	}
	c.sends++
	if c.fault.FailSendAt > 0 && c.sends >= c.fault.FailSendAt {
		c.Stats["send_failures_injected"]++
		c.mu.Unlock()
		return fmt.Errorf("injected send failure")
	}
	c.mu.Unlock()
	c.inboxMu.Lock()
	c.inbox = append(c.inbox, inboxItem{st: st, r: r})
	c.inboxCv.Signal()
	c.inboxMu.Unlock()
	return nil
}

func (c *Client) loop(st *xdsshim.DeltaStream) {
	defer c.loopWG.Done()
	for {
		c.inboxMu.Lock()
		for len(c.inbox) == 0 && !c.closed.Load() {
			c.inboxCv.Wait()
		}
		if c.closed.Load() {
			c.inboxMu.Unlock()
			return
		}
		it := c.inbox[0]
		c.inbox = c.inbox[1:]
		c.inboxMu.Unlock()
		if it.st != st {
			continue
		}
		c.mu.Lock()
		if st != c.stream || !c.connected {
			c.mu.Unlock()
			return
		}
		c.apply(it.r)
		c.mu.Unlock()
	}
}

func (c *Client) apply(r *discovery.DeltaDiscoveryResponse) {
	t := r.TypeUrl
	if _, known := c.held[t]; !known {
		return
	}
	c.responses[t]++
	c.Stats["responses_"+Short(t)]++
	inRes := map[string]bool{}
	for _, res := range r.Resources {
		inRes[res.Name] = true
		if res.Resource == nil {
			c.Violations = append(c.Violations, fmt.Sprintf("%s resource %q without a body", Short(t), res.Name))
			continue
		}
		c.held[t][res.Name] = Held{Resource: res.Resource, Version: res.Version, Aliases: append([]string(nil), res.Aliases...)}
		if t == AddressType {
			delete(c.removedByEmpty, res.Name)
		}
		c.Stats["resources_received_"+Short(t)]++
	}
	for _, n := range r.RemovedResources {
		if inRes[n] {
			c.Violations = append(c.Violations, fmt.Sprintf("%s response names %q both in resources and in removed_resources", Short(t), n))
		}
		if _, ok := c.held[t][n]; ok {
			c.Stats["removed_held_"+Short(t)]++
		}
		if _, ok := c.held[t][n]; ok && t == AddressType && len(r.Resources) == 0 {
			c.removedByEmpty[n] = true
			c.Stats["held_names_removed_by_response_without_resources"]++
		}
		delete(c.held[t], n)
		if c.removedOnStream[t] == nil {
			c.removedOnStream[t] = map[string]bool{}
		}
		c.removedOnStream[t][n] = true
	}
	if len(r.RemovedResources) > 0 {
		c.Stats["responses_with_removals_"+Short(t)]++
		c.Stats["removed_names_"+Short(t)] += len(r.RemovedResources)
	}
	if Trace {
		var ns []string
		for _, res := range r.Resources {
			ns = append(ns, fmt.Sprintf("%s%v", res.Name, res.Aliases))
		}
		fmt.Printf("TRACE ztunnel-response client=%s type=%s resources=%v removed=%v\n", c.Name, Short(t), ns, r.RemovedResources)
	}
	c.applied++
	ack := func() { c.stream.Request(&discovery.DeltaDiscoveryRequest{TypeUrl: t, ResponseNonce: r.Nonce}) }
	if c.fault.CutAfterResponses > 0 && c.applied == c.fault.CutAfterResponses {
		if c.fault.AckBeforeCut {
			ack()
		}
		c.Stats["cuts_injected"]++
		c.disconnectLocked(false)
		return
	}
	ack()
}

// Disconnect ends the current stream abruptly (context cancel) or orderly (EOF); state is kept.
func (c *Client) Disconnect(orderly bool) {
	c.mu.Lock()
	c.disconnectLocked(orderly)
	c.mu.Unlock()
	c.closed.Store(true)
	c.inboxMu.Lock()
	c.inboxCv.Broadcast()
	c.inboxMu.Unlock()
	c.loopWG.Wait()
}

func (c *Client) disconnectLocked(orderly bool) {
	if !c.connected {
		return
	}
	c.connected = false
	if orderly {
		c.stream.CloseSend()
	} else {
		c.stream.Cancel()
	}
}

func (c *Client) Connected() bool {
	c.mu.Lock()
	defer c.mu.Unlock()
	return c.connected
}

func (c *Client) StreamErr() (done bool, err error, panicked string) {
	c.mu.Lock()
	defer c.mu.Unlock()
	if c.stream == nil {
		return false, nil, ""
	}
	select {
	case <-c.stream.Done():
		return true, c.stream.Err(), c.stream.Panicked()
	default:
		return false, nil, ""
	}
}

// Snapshot returns a copy of what the client holds: type -> resource name -> resource.
func (c *Client) Snapshot() map[string]map[string]Held {
	c.mu.Lock()
	defer c.mu.Unlock()
	out := map[string]map[string]Held{}
	for t, m := range c.held {
		out[t] = make(map[string]Held, len(m))
		for n, h := range m {
			out[t][n] = h
		}
	}
	return out
}

// RemovedByEmptyResponse reports whether the Address name was held and then removed by a response that carried
// no resources (and has not been sent again since).
func (c *Client) RemovedByEmptyResponse(name string) bool {
	c.mu.Lock()
	defer c.mu.Unlock()
	return c.removedByEmpty[name]
}

// Dropped reports whether the client unsubscribed the name explicitly and has not subscribed it again since.
func (c *Client) Dropped(name string) bool {
	c.mu.Lock()
	defer c.mu.Unlock()
	return c.dropped[name]
}

// SubscribedWhileHeld reports whether the name was subscribed while a resource of that name was already held.
func (c *Client) SubscribedWhileHeld(name string) bool {
	c.mu.Lock()
	defer c.mu.Unlock()
	return c.subscribedWhileHeld[name]
}

// Subscriptions returns the Address names an on-demand client is subscribed to.
func (c *Client) Subscriptions() []string {
	c.mu.Lock()
	defer c.mu.Unlock()
	return sortedKeys(c.subs)
}

// ResponsesOnStream returns how many responses per type arrived on the current stream and which
// names were listed in removed_resources on it.
func (c *Client) ResponsesOnStream() (responses map[string]int, removed map[string]map[string]bool) {
	c.mu.Lock()
	defer c.mu.Unlock()
	responses, removed = map[string]int{}, map[string]map[string]bool{}
	for k, v := range c.responses {
		responses[k] = v
	}
	for t, m := range c.removedOnStream {
		removed[t] = map[string]bool{}
		for n := range m {
			removed[t][n] = true
		}
	}
	return
}

// ResponseCount is the number of responses received over the client's life.
func (c *Client) ResponseCount() int {
	c.mu.Lock()
	defer c.mu.Unlock()
	n := 0
	for _, t := range Types {
		n += c.Stats["responses_"+Short(t)]
	}
	return n
}

func (c *Client) StatsCopy() map[string]int {
	c.mu.Lock()
	defer c.mu.Unlock()
	out := map[string]int{}
	for k, v := range c.Stats {
		out[k] = v
	}
	return out
}

func (c *Client) ViolationsCopy() []string {
	c.mu.Lock()
	defer c.mu.Unlock()
	return append([]string(nil), c.Violations...)
}

func sortedKeys(m map[string]bool) []string {
	out := make([]string, 0, len(m))
	for k := range m {
		out = append(out, k)
	}
	sort.Strings(out)
	return out
}
