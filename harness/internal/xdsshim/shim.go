// Package xdsshim connects harness-written xDS clients to the real DiscoveryServer without
// gRPC: it implements the server-side stream interfaces directly, so Send runs on the
// server's own stream goroutine (deterministic order, exact fault-injection boundary).
package xdsshim

import (
	"context"
	"fmt"
	"io"
	"net"
	"runtime/debug"
	"sync"
	"sync/atomic"
	"time"

	clusterv3 "github.com/envoyproxy/go-control-plane/envoy/config/cluster/v3"
	corev3 "github.com/envoyproxy/go-control-plane/envoy/config/core/v3"
	endpointv3 "github.com/envoyproxy/go-control-plane/envoy/config/endpoint/v3"
	listenerv3 "github.com/envoyproxy/go-control-plane/envoy/config/listener/v3"
	routev3 "github.com/envoyproxy/go-control-plane/envoy/config/route/v3"
	tlsv3 "github.com/envoyproxy/go-control-plane/envoy/extensions/transport_sockets/tls/v3"
	discovery "github.com/envoyproxy/go-control-plane/envoy/service/discovery/v3"
	"google.golang.org/grpc/codes"
	"google.golang.org/grpc/metadata"
	"google.golang.org/grpc/peer"
	"google.golang.org/grpc/status"
	"google.golang.org/protobuf/proto"
	"google.golang.org/protobuf/types/known/anypb"
	"google.golang.org/protobuf/types/known/structpb"
	"google.golang.org/protobuf/types/known/wrapperspb"

	"istio.io/istio/pilot/pkg/model"
	"istio.io/istio/pilot/pkg/xds"
)

// BarrierType is the private type URL answered by the barrier generator.
const BarrierType = "type.googleapis.com/verif.Barrier"

// Clock is a global logical clock shared by all streams of a process.
var Clock atomic.Int64

// base carries what both stream kinds share.
type base struct {
	ctx    context.Context
	cancel context.CancelFunc
	done   chan struct{} // closed when the server-side Stream() call returned
	err    error
	panicS string // non-empty if the server's stream handler panicked (recovered by the shim)
}

// Panicked returns the panic value and stack if the server's stream handler panicked. Valid
// after Done is closed. The real gRPC server has no recover interceptor, so in production
// such a panic ends the process.
func (b *base) Panicked() string { return b.panicS }

func (b *base) serve(fn func() error) {
	go func() {
		defer close(b.done)
		// gRPC cancels the stream's context when the handler returns
		defer b.cancel()
		defer func() {
			if r := recover(); r != nil {
				b.panicS = fmt.Sprintf("%v\n%s", r, debug.Stack())
			}
		}()
		b.err = fn()
	}()
}

func newBase(parent context.Context, addr string, auth peerAuth) base {
	if parent == nil {
		parent = context.Background()
	}
	p := &peer.Peer{Addr: &net.TCPAddr{IP: net.ParseIP(addr), Port: 40000}}
	if auth != nil {
		p.AuthInfo = auth
	}
	ctx := peer.NewContext(parent, p)
	ctx, cancel := context.WithCancel(ctx)
	return base{ctx: ctx, cancel: cancel, done: make(chan struct{})}
}

type peerAuth interface {
	AuthType() string
}

func (b *base) Context() context.Context     { return b.ctx }
func (b *base) SetHeader(metadata.MD) error  { return nil }
func (b *base) SendHeader(metadata.MD) error { return nil }
func (b *base) SetTrailer(metadata.MD)       {}
func (b *base) SendMsg(any) error            { return nil }
func (b *base) RecvMsg(any) error            { return nil }

// Done is closed when the server returned from the stream handler; Err is its result.
func (b *base) Done() <-chan struct{} { return b.done }
func (b *base) Err() error            { return b.err }

// Cancel cancels the stream context (abrupt client disconnect).
func (b *base) Cancel() { b.cancel() }

// ---------------------------------------------------------------------------------------
// SotW

// SotwStream implements the server side of StreamAggregatedResources.
type SotwStream struct {
	base
	reqCh chan *discovery.DiscoveryRequest
	// OnSend is called on the server's stream goroutine for every response; returning an
	// error makes Send fail (fault injection). It must not block forever.
	OnSend func(*discovery.DiscoveryResponse) error
	closed atomic.Bool
}

func NewSotw(parent context.Context, onSend func(*discovery.DiscoveryResponse) error) *SotwStream {
	s := &SotwStream{base: newBase(parent, "127.0.0.1", nil), reqCh: make(chan *discovery.DiscoveryRequest, 64), OnSend: onSend}
	return s
}

func (s *SotwStream) Send(r *discovery.DiscoveryResponse) error {
	if s.ctx.Err() != nil {
		return status.Error(codes.Canceled, "context canceled")
	}
	return s.OnSend(r)
}

func (s *SotwStream) Recv() (*discovery.DiscoveryRequest, error) {
	select {
	case r, ok := <-s.reqCh:
		if !ok {
			return nil, io.EOF
		}
		return r, nil
	case <-s.ctx.Done():
		return nil, status.Error(codes.Canceled, "context canceled")
	}
}

// Request hands a request to the server (client -> server direction).
func (s *SotwStream) Request(r *discovery.DiscoveryRequest) bool {
	select {
	case s.reqCh <- r:
		return true
	case <-s.done:
		return false
	case <-s.ctx.Done():
		return false
	}
}

// CloseSend makes the server's Recv return EOF (orderly client close).
func (s *SotwStream) CloseSend() {
	if s.closed.CompareAndSwap(false, true) {
		close(s.reqCh)
	}
}

// Serve runs the real server handler on this stream in a new goroutine.
func (s *SotwStream) Serve(ds *xds.DiscoveryServer) {
	s.serve(func() error { return ds.Stream(s) })
}

// ---------------------------------------------------------------------------------------
// Delta

type DeltaStream struct {
	base
	reqCh  chan *discovery.DeltaDiscoveryRequest
	OnSend func(*discovery.DeltaDiscoveryResponse) error
	closed atomic.Bool
}

func NewDelta(parent context.Context, onSend func(*discovery.DeltaDiscoveryResponse) error) *DeltaStream {
	return &DeltaStream{base: newBase(parent, "127.0.0.1", nil), reqCh: make(chan *discovery.DeltaDiscoveryRequest, 64), OnSend: onSend}
}

func (s *DeltaStream) Send(r *discovery.DeltaDiscoveryResponse) error {
	if s.ctx.Err() != nil {
		return status.Error(codes.Canceled, "context canceled")
	}
	return s.OnSend(r)
}

func (s *DeltaStream) Recv() (*discovery.DeltaDiscoveryRequest, error) {
	select {
	case r, ok := <-s.reqCh:
		if !ok {
			return nil, io.EOF
		}
		return r, nil
	case <-s.ctx.Done():
		return nil, status.Error(codes.Canceled, "context canceled")
	}
}

func (s *DeltaStream) Request(r *discovery.DeltaDiscoveryRequest) bool {
	select {
	case s.reqCh <- r:
		return true
	case <-s.done:
		return false
	case <-s.ctx.Done():
		return false
	}
}

func (s *DeltaStream) CloseSend() {
	if s.closed.CompareAndSwap(false, true) {
		close(s.reqCh)
	}
}

func (s *DeltaStream) Serve(ds *xds.DiscoveryServer) {
	s.serve(func() error { return ds.StreamDeltas(s) })
}

// ---------------------------------------------------------------------------------------
// barrier generator

type barrierGen struct{}

func barrierResources(w *model.WatchedResource) model.Resources {
	var out model.Resources
	for n := range w.ResourceNames {
		a, _ := anypb.New(wrapperspb.String(n))
		out = append(out, &discovery.Resource{Name: n, Resource: a})
	}
	return out
}

func (barrierGen) Generate(_ *model.Proxy, w *model.WatchedResource, req *model.PushRequest) (model.Resources, model.XdsLogDetails, error) {
	if !req.IsRequest() {
		return nil, model.DefaultXdsLogDetails, nil // pushes are never answered
	}
	return barrierResources(w), model.DefaultXdsLogDetails, nil
}

func (barrierGen) GenerateDeltas(_ *model.Proxy, req *model.PushRequest, w *model.WatchedResource) (model.Resources, model.DeletedResources, model.XdsLogDetails, bool, error) {
	if !req.IsRequest() {
		return nil, nil, model.DefaultXdsLogDetails, false, nil
	}
	return barrierResources(w), nil, model.DefaultXdsLogDetails, true, nil
}

// InstallBarrier registers the barrier generator; call before any client connects.
func InstallBarrier(ds *xds.DiscoveryServer) {
	ds.Generators[BarrierType] = barrierGen{}
}

// Node builds a node identifier the way istio proxies do.
func Node(ptype, ip, id, ns string, meta map[string]any) *corev3.Node {
	m := map[string]any{"NAMESPACE": ns}
	for k, v := range meta {
		m[k] = v
	}
	st, err := structpb.NewStruct(m)
	if err != nil {
		panic(fmt.Sprintf("node metadata: %v", err))
	}
	return &corev3.Node{Id: fmt.Sprintf("%s~%s~%s.%s~%s.svc.cluster.local", ptype, ip, id, ns, ns), Metadata: st}
}

// ---------------------------------------------------------------------------------------
// control-plane quiescence (DESIGN §2.3 step 2)

// WaitControlPlaneIdle waits until every accepted notification has been committed and the
// push queue holds nothing pending or in flight, observed stable twice in a row. The
// duration only feeds the watchdog: false means inconclusive, never a verdict.
func WaitControlPlaneIdle(ds *xds.DiscoveryServer, watchdog time.Duration) bool {
	deadline := time.Now().Add(watchdog)
	stable := 0
	var lastIn int64 = -1
	for {
		in, co := ds.InboundUpdates.Load(), ds.CommittedUpdates.Load()
		p, q := ds.PushQueueStateForVerif()
		if in == co && p == 0 && q == 0 {
			if in == lastIn {
				stable++
			} else {
				stable = 1
				lastIn = in
			}
			if stable >= 3 {
				return true
			}
		} else {
			stable = 0
		}
		if time.Now().After(deadline) {
			return false
		}
		time.Sleep(200 * time.Microsecond)
	}
}

// Mutex-protected response log used by simple clients.
type Log[T any] struct {
	mu    sync.Mutex
	items []T
}

func (l *Log[T]) Add(v T) {
	l.mu.Lock()
	l.items = append(l.items, v)
	l.mu.Unlock()
}

func (l *Log[T]) Len() int {
	l.mu.Lock()
	defer l.mu.Unlock()
	return len(l.items)
}

func (l *Log[T]) Since(i int) []T {
	l.mu.Lock()
	defer l.mu.Unlock()
	return append([]T(nil), l.items[i:]...)
}

// ResourceName extracts the xDS resource name from a SotW resource.
func ResourceName(a *anypb.Any) string {
	switch a.TypeUrl {
	case "type.googleapis.com/envoy.config.cluster.v3.Cluster":
		m := &clusterv3.Cluster{}
		if proto.Unmarshal(a.Value, m) == nil {
			return m.Name
		}
	case "type.googleapis.com/envoy.config.endpoint.v3.ClusterLoadAssignment":
		m := &endpointv3.ClusterLoadAssignment{}
		if proto.Unmarshal(a.Value, m) == nil {
			return m.ClusterName
		}
	case "type.googleapis.com/envoy.config.listener.v3.Listener":
		m := &listenerv3.Listener{}
		if proto.Unmarshal(a.Value, m) == nil {
			return m.Name
		}
	case "type.googleapis.com/envoy.config.route.v3.RouteConfiguration":
		m := &routev3.RouteConfiguration{}
		if proto.Unmarshal(a.Value, m) == nil {
			return m.Name
		}
	case "type.googleapis.com/envoy.config.core.v3.TypedExtensionConfig":
		m := &corev3.TypedExtensionConfig{}
		if proto.Unmarshal(a.Value, m) == nil {
			return m.Name
		}
	case "type.googleapis.com/envoy.extensions.transport_sockets.tls.v3.Secret":
		m := &tlsv3.Secret{}
		if proto.Unmarshal(a.Value, m) == nil {
			return m.Name
		}
	}
	return "?" + a.TypeUrl
}
