#!/bin/bash
# Offline setup: warm the Go build cache by building every engine once (hooks on, -race).
set -u
export GOFLAGS=-mod=mod GOPROXY=off
cd /verif/harness || exit 1
mkdir -p /verif/bin /verif/run /verif/evidence /verif/replay
rc=0
for d in cmd/*/; do
  e=$(basename "$d")
  go build -race -tags verif -o "/verif/bin/$e" "./cmd/$e" || rc=1
done
exit $rc
