#!/bin/bash
# Offline setup: warm the Go build cache by building every engine once (hooks on, -race).
# Each check rebuilds its own engine anyway (./check), so a failing build here is reported
# but does not fail the setup: an engine that is still under construction must not block
# the checks of the others.
set -u
export GOFLAGS=-mod=mod GOPROXY=off
cd /verif/harness || exit 1
mkdir -p /verif/bin /verif/run /verif/evidence /verif/replay
for d in cmd/*/; do
  e=$(basename "$d")
  if ! go build -race -tags verif -o "/verif/bin/$e" "./cmd/$e" 2>"/verif/run/setup.$e.log"; then
    echo "setup: engine $e did not build (see /verif/run/setup.$e.log)" >&2
  fi
done
exit 0
