#!/usr/bin/env python3
"""Regenerates /verif/MANIFEST.json from the table below (one entry per claimed property)."""
import json, subprocess

ENGINE = {'C01':'xdsconv','C03':'xdsconv','C05':'xdsconv','C02':'pushflow','C04':'xdsproto','C06':'xdscache','C11':'sdsauth',
          'C07':'visref','C08':'rbacref','C10':'mtlsref','C12':'routeref','C14':'wellformed','C17':'determ','C09':'casec','C13':'epindex',
          'C15':'kubereg','C16':'krtmon','C18':'agentsec','C19':'injectmon','C20':'iptmon'}

# id -> dict(category, text, note, technique, design_ref)
CLAIMED = {}
exec(open('/verif/tools/claims.py').read())

ids = [json.loads(l)['id'] for l in open('/verif/properties.jsonl')]
checks, na = [], []
for i in ids:
    if i in CLAIMED:
        c = CLAIMED[i]
        checks.append({
            'property_id': i,
            'quick_cmd': f'./check {i} quick',
            'thorough_cmd': f'./check {i} thorough',
            'evidence_file': f'/verif/evidence/{i}.json',
            'replay_cmd_template': f'./check {i} quick --replay {{path}}',
            'engine': ENGINE[i],
            'level_claimed': {'category': c['category'], 'text': c['text'], 'design_ref': c.get('design_ref', f'DESIGN.md §3 {i}')},
            'level_note': c['note'],
            'technique': c['technique'],
        })
    else:
        na.append({'property_id': i, 'reason': NOT_CLAIMED.get(i, 'runtime monitor for this property is designed (DESIGN.md §3) but not built yet; not claimed until its check is qualified on the unchanged tree')})
hooks = [l.split()[0] for l in subprocess.run(['git','-C','/repo','log','--format=%H %s','8d5216c..HEAD'],capture_output=True,text=True).stdout.splitlines() if ' verif-hook' in l or 'verif hook' in l]
engines = {}
for i in CLAIMED: engines.setdefault(ENGINE[i], []).append(i)
m = {
 'version': 1,
 'setup_cmd': './setup.sh',
 'hooks': {
   'guard': 'verif (Go build tag)',
   'enable': 'go build -race -tags verif (done by ./check for every engine, from /repo working tree via replace istio.io/istio => /repo)',
   'baseline_off_cmd': "cd /repo && go test -vet=off -count=1 -timeout 25m ./...",
   'source_commits': hooks,
   'add_only': True,
 },
 'engines': [{'name': e, 'path': f'/verif/harness/cmd/{e}', 'serves_properties': ps,
              'kind_free_text': 'Go binary built with -race -tags verif; parent spawns one child process per batch under a SIGQUIT watchdog; monitors observe the real istio code'} for e, ps in sorted(engines.items())],
 'checks': checks,
 'notes': 'All checks are runtime monitors over executions of the real code (see DESIGN.md). Verdict: exit 0 held on what was observed, exit 1 + VIOLATION line, other non-zero = broken check (harness error or too few non-trivial cases). known-findings.txt is read-only at run time.',
 'not_applicable': na,
}
json.dump(m, open('/verif/MANIFEST.json','w'), indent=1)
print('claimed', sorted(CLAIMED), 'hooks', hooks)
