#!/usr/bin/env python3
"""Validate MANIFEST.json and every evidence file against the schemas in /root/.vp."""
import json, sys, glob
import jsonschema
ok = True
m = json.load(open('/verif/MANIFEST.json'))
jsonschema.validate(m, json.load(open('/root/.vp/MANIFEST.schema.json')))
ids = [json.loads(l)['id'] for l in open('/verif/properties.jsonl')]
claimed = [c['property_id'] for c in m['checks']]
na = [n['property_id'] for n in m.get('not_applicable', [])]
for i in ids:
    if (i in claimed) == (i in na):
        print('property', i, 'must be exactly one of claimed / not_applicable'); ok = False
es = json.load(open('/root/.vp/EVIDENCE.schema.json'))
for f in sorted(glob.glob('/verif/evidence/*.json')):
    try:
        jsonschema.validate(json.load(open(f)), es)
    except Exception as e:
        print('INVALID', f, str(e)[:300]); ok = False
print('manifest ok; claimed:', claimed, 'n/a:', na)
sys.exit(0 if ok else 1)
