# Table of claimed properties; exec'd by mkmanifest.py.
NOT_CLAIMED = {}

CLAIMED['C13'] = dict(
  category='exploration',
  technique='runtime monitoring: recorded concurrent histories of the real EndpointIndex checked for linearizability with porcupine (gate-enumerated windows via hook H2 + free-running stress under -race), plus differential oracle of real EDS generator output vs reference membership function',
  text='Held on every execution produced: all ordered (parked update x concurrent registry op x initial population) pairs at the lookup/lock window, thousands of PRNG multi-registry histories under the race detector, and thousands of PRNG shard/subset/health/locality/visibility worlds where generator (cold and cached) and builder output equal the reference member set and locality weights. Exploration, not proof: schedules outside those produced and inputs outside the grammar are not covered.',
  note='Trusted: porcupine v1.3.0; the sequential spec map[service]map[registry]->update id; unique ids in endpoints; the reference membership function (our reading of the property incl. documented DestinationRule distribute semantics); model.Service objects from the in-memory registry stand in for real registries. Multi-network gateways, waypoints and InferencePool semantics are not driven.',
)

CLAIMED['C20'] = dict(
  category='exploration',
  technique='runtime monitoring / differential oracle: the real iptables configurator is run on PRNG-stratified capture configs, the iptables-restore text it emits is executed by a reference netfilter interpreter over boundary-value packets, and every packet fate is compared with a reference capture policy written from the property; v4/v6 parity on mirrored configs',
  text='Held (up to the listed known finding) on every (config, packet) pair explored: 54 strata of REDIRECT/TPROXY x DNS x dual-stack x owner-group filters x include/exclude lists, thousands of configs, tens of millions of packets in thorough. Unknown rule syntax aborts a case as inconclusive, never passes silently. Exploration only: reconcile/cleanup paths, nftables backend and pre-existing rules are not driven.',
  note='Trusted: the reference netfilter interpreter (hook order, REDIRECT re-entry over lo, owner/mark/conntrack semantics) and the reference policy; packet classes on which the property is silent (proxy->pod over lo, 127.0.0.6 source, tunnel port 15008, INVALID state under drop-invalid, conflicting include+exclude of one port/gid) are unspecified and only checked for v4/v6 parity. One known finding (app TCP/53 to self over lo with DNS capture) is listed in known-findings.txt.',
)

CLAIMED['C04'] = dict(
  category='exploration',
  technique='runtime monitoring: executable xDS protocol model in closed loop with the real DiscoveryServer (Stream/StreamDeltas on an in-process stream shim), barrier requests make silence a decided observation; exhaustive short request sequences + PRNG long ones; panic/crash detection',
  text='Held on every request sequence executed: all sequences up to length 2 (quick) / 3 (thorough) over the per-type alphabet (names x nonce kind x error_detail + push) for EDS, RDS, CDS, LDS, NDS on bare and conformantly warmed streams, SotW and delta, plus thousands of random mixed sequences; each stimulus classified must-respond / must-be-silent / unspecified by the model and compared with what the server did before the barrier echo; auto-ACK rounds bound the loop clause; server record compared with the last request for conformant sequences.',
  note='Trusted: the protocol model (our reading of the property; unspecified reactions are accepted either way), the barrier ordering argument (one goroutine per connection handles requests and pushes in order), FakeDiscoveryServer wiring. Not driven: ECDS/SDS/WDS types, proxies with custom generators, real gRPC transport, concurrency between the request loop and pushes beyond the push letter.',
)

CLAIMED['C09'] = dict(
  category='exploration',
  technique='runtime monitoring: the real IstioCA behind the real CA gRPC handler and the real authenticators (k8s TokenReview, OIDC against a loopback issuer, client certificate, XFCC, node authorizer) is driven with structured hostile credentials/CSRs/metadata; every returned leaf is parsed and compared with the identity set derived independently from the credential; panics and child crashes are violations',
  text='Held (up to listed known findings) on every request executed: 183 enumerated hostile shapes x 4 CA configurations (self-signed, RSA/ECDSA/P384 plugged-in incl. a soon-expiring signer) plus thousands of PRNG requests. For each issued leaf: SAN set equals the authenticated identity set (or the authorised impersonated identity), not a CA, binds the CSR key, NotAfter within max TTL and signer expiry, chain verifies; errors are gRPC statuses; no crash. One-directional oracle: refusing is never a violation.',
  note='Trusted: our structured credential model (identity sets known by construction), the harness pod table for node authorization, crypto/x509 parsing. TTL bound uses a timestamp read after the call (load-insensitive side). Not covered: cluster aliases, HTTP authn path, TokenReview audiences, root rotation, concurrency. Known findings: node authorizer does not compare trust domains; non-IA5 OIDC sub yields an unparseable leaf.',
)

CLAIMED['C18'] = dict(
  category='fault_enumeration',
  technique='runtime monitoring with fault enumeration: the real SecretManagerClient is driven against a recording, scripted fake CA (really signs CSRs) and a virtual delayed queue injected through hook H3; a reference model is compared after every operation of enumerated CA fault sequences and PRNG schedules; race detector over a free-running stress stratum; file-mounted certificate stratum with racing republication',
  text='Held on every schedule executed: all CA fault sequences of length <= 4 over {ok, sign error, root error} x {immediate, delayed} (exhaustive stratum), hundreds/thousands of PRNG interleavings of GenerateSecret bursts, gate releases, renewal firings (current and stale), trust-bundle updates and root changes; per observation: key/cert pair match, roots contained, exactly one CSRSign per attempt and none overlapping, exactly one renewal per certificate with delay bounded by expiry and grace, failure not sticky, root change announced exactly once; rotateTime swept over ratio x jitter grids.',
  note='Trusted: the fake CA and virtual queue (harness code), the reference model, one-sided time bounds computed from timestamps taken before the call. Not driven: sdsservice push delivery, citadel client retries, real delay queue timing. Three defects found by this check were fixed (see known-findings.txt).',
)

CLAIMED['C19'] = dict(
  category='exploration',
  technique='runtime monitoring: the real injection webhook (inject.NewWebhook behind its HTTP mux, config and templates rendered from the in-repo charts) is driven with AdmissionReview requests; exhaustive 1200-row decision table against an independent reference table function (each row three times: determinism, non-interference), plus inject-twice differential and pod-preservation diff over repo fixtures and PRNG pods',
  text='Decision clause: exhaustive over hostNetwork x namespace x label x annotation x never/always selectors x policy (1200 rows, x8 installation variants in thorough), every row equal to the reference precedence table and stable under re-submission and unrelated metadata. Idempotency/preservation: hundreds (quick) to thousands (thorough) of pods under the shipped templates that render for pods (sidecar, gateway, grpc-agent, grpc-simple); user containers, init containers and volumes keep order, image, command, args, ports. Re-invocation is NOT idempotent for five trigger families listed as known findings; any other difference between first and second injection is still a violation.',
  note='Trusted: the reference decision table (our reading of the documented precedence; an illegal policy value disables injection as documented by the injector), JSON-patch application, canonical JSON comparison. Repo TEST-only templates (custom, spire) are excluded; templates needing a ServiceAccount context (waypoint, kube-gateway, agentgateway) do not render for pods and are not covered. AdmissionReview v1 only; OpenShift and node auto-detection branches not driven.',
)

CLAIMED['C16'] = dict(
  category='exploration',
  technique='runtime monitoring: PRNG-built krt collection DAGs (public API only) run under concurrent PRNG input histories with the race detector; at logical quiescence (stop-the-world goroutine-state fixpoint) List/GetKey/Index.Lookup/filtered Fetch are compared with an independent recomputation over plain maps, and every subscriber event stream is run through a per-key automaton and replayed against the final contents',
  text='Held (up to listed known findings, each confined to a stratum of programs using the named feature) on every program x history executed: hundreds (quick) to thousands (thorough) of DAGs over one-to-one, one-to-many (fixed and moving keys), singleton, join (checked/unchecked), merge join, nested join with merge, map, index and index-as-collection shapes, with late subscribers and late-built nodes; millions of stream events checked in thorough. A state mismatch must persist over two further barrier rounds before it is reported.',
  note='Trusted: the reference recomputation generated from the same descriptor as the krt transformation (shares no krt code), the quiescence detector (all other goroutines parked and none in a krt sync wait), coalesced updates accepted as the EventStream contract allows. Not driven: informer-backed inputs, status collections, Index.AsCollection event streams. Programs containing a known-bad feature (nil labels with FilterSelects, overlapping join keys, moving many-keys, racing nested-join membership) report under their stratum key, which can hide a different defect confined to the same nodes. A krt goroutine nil dereference on concurrent nested-join member removal (repro: krtmon repro crash) is kept out of the generator and described in DESIGN.md.',
)

CLAIMED['C08'] = dict(
  category='translation_validation',
  technique='runtime monitoring / differential translation validation: PRNG and enumerated AuthorizationPolicy sets (each passed through the real validator) are translated by the real authz builder; an Envoy RBAC interpreter over the emitted filters and an independent policy-semantics evaluator over the API objects decide generated requests (literals and near misses, HTTP and raw TCP); decisions must agree, one-sided only where the property allows stricter',
  text='Held (up to two listed root causes) on every (policy set, workload, request) evaluated: thousands of policy sets and a 4172-case single-field sweep, millions of request decisions per run, 830 field x form x action x protocol combinations, sidecars and gateways, root-namespace and selector scoping, trust-domain aliases, JWT claims, path templates. Disagreements are shrunk and keyed by a named root-cause hypothesis or by direction+protocol+field:form.',
  note='Trusted: reference policy evaluator (our reading of the AuthorizationPolicy API docs; combinations the docs leave open are three-valued and not judged), the Envoy RBAC interpreter (36 matcher kinds; unknown kinds => inconclusive), Go regexp for safe_regex. Not generated: experimental filters, targetRef/waypoint attachment, IPv4-mapped IPv6, query strings, multi-wildcard values.',
)
