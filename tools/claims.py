# Table of claimed properties; exec'd by mkmanifest.py.
NOT_CLAIMED = {}

CLAIMED['C13'] = dict(
  category='exploration',
  technique='runtime monitoring: recorded concurrent histories of the real EndpointIndex checked for linearizability with porcupine (gate-enumerated windows via hook H2 + free-running stress under -race), plus differential oracle of real EDS generator output vs reference membership function',
  text='Held on every execution produced: all ordered (parked update x concurrent registry op x initial population) pairs at the lookup/lock window, thousands of PRNG multi-registry histories under the race detector, and thousands of PRNG shard/subset/health/locality/visibility worlds where generator (cold and cached) and builder output equal the reference member set and locality weights. Exploration, not proof: schedules outside those produced and inputs outside the grammar are not covered.',
  note='Trusted: porcupine v1.3.0; the sequential spec map[service]map[registry]->update id; unique ids in endpoints; the reference membership function (our reading of the property incl. documented DestinationRule distribute semantics); model.Service objects from the in-memory registry stand in for real registries. Multi-network gateways, waypoints and InferencePool semantics are not driven.',
)

CLAIMED['C20'] = dict(
  category='exploration',
  technique='runtime monitoring / differential oracle: the real iptables configurator is run on PRNG-stratified capture configs, the iptables-restore text it emits is executed by a reference netfilter interpreter over boundary-value packets, and every packet fate is compared with a reference capture policy written from the property; v4/v6 parity on mirrored configs',
  text='Held (up to the listed known finding) on every (config, packet) pair explored: 54 strata of REDIRECT/TPROXY x DNS x dual-stack x owner-group filters x include/exclude lists, thousands of configs, tens of millions of packets in thorough. Unknown rule syntax aborts a case as inconclusive, never passes silently. Exploration only: reconcile/cleanup paths, nftables backend and pre-existing rules are not driven.',
  note='Trusted: the reference netfilter interpreter (hook order, REDIRECT re-entry over lo, owner/mark/conntrack semantics) and the reference policy; packet classes on which the property is silent (proxy->pod over lo, 127.0.0.6 source, tunnel port 15008, INVALID state under drop-invalid, conflicting include+exclude of one port/gid) are unspecified and only checked for v4/v6 parity. One known finding (app TCP/53 to self over lo with DNS capture) is listed in known-findings.txt.',
)

CLAIMED['C04'] = dict(
  category='exploration',
  technique='runtime monitoring: executable xDS protocol model in closed loop with the real DiscoveryServer (Stream/StreamDeltas on an in-process stream shim), barrier requests make silence a decided observation; exhaustive short request sequences + PRNG long ones; panic/crash detection',
  text='Held on every request sequence executed: all sequences up to length 2 (quick) / 3 (thorough) over the per-type alphabet (names x nonce kind x error_detail + push) for EDS, RDS, CDS, LDS, NDS on bare and conformantly warmed streams, SotW and delta, plus thousands of random mixed sequences; each stimulus classified must-respond / must-be-silent / unspecified by the model and compared with what the server did before the barrier echo; auto-ACK rounds bound the loop clause; server record compared with the last request for conformant sequences.',
  note='Trusted: the protocol model (our reading of the property; unspecified reactions are accepted either way), the barrier ordering argument (one goroutine per connection handles requests and pushes in order), FakeDiscoveryServer wiring. Not driven: ECDS/SDS/WDS types, proxies with custom generators, real gRPC transport, concurrency between the request loop and pushes beyond the push letter.',
)

CLAIMED['C09'] = dict(
  category='exploration',
  technique='runtime monitoring: the real IstioCA behind the real CA gRPC handler and the real authenticators (k8s TokenReview, OIDC against a loopback issuer, client certificate, XFCC, node authorizer) is driven with structured hostile credentials/CSRs/metadata; every returned leaf is parsed and compared with the identity set derived independently from the credential; panics and child crashes are violations',
  text='Held (up to listed known findings) on every request executed: 183 enumerated hostile shapes x 4 CA configurations (self-signed, RSA/ECDSA/P384 plugged-in incl. a soon-expiring signer) plus thousands of PRNG requests. For each issued leaf: SAN set equals the authenticated identity set (or the authorised impersonated identity), not a CA, binds the CSR key, NotAfter within max TTL and signer expiry, chain verifies; errors are gRPC statuses; no crash. One-directional oracle: refusing is never a violation.',
  note='Trusted: our structured credential model (identity sets known by construction), the harness pod table for node authorization, crypto/x509 parsing. TTL bound uses a timestamp read after the call (load-insensitive side). Not covered: cluster aliases, HTTP authn path, TokenReview audiences, root rotation, concurrency. Known findings: node authorizer does not compare trust domains; non-IA5 OIDC sub yields an unparseable leaf.',
)

CLAIMED['C18'] = dict(
  category='fault_enumeration',
  technique='runtime monitoring with fault enumeration: the real SecretManagerClient is driven against a recording, scripted fake CA (really signs CSRs) and a virtual delayed queue injected through hook H3; a reference model is compared after every operation of enumerated CA fault sequences and PRNG schedules; race detector over a free-running stress stratum; file-mounted certificate stratum with racing republication',
  text='Held on every schedule executed: all CA fault sequences of length <= 4 over {ok, sign error, root error} x {immediate, delayed} (exhaustive stratum), hundreds/thousands of PRNG interleavings of GenerateSecret bursts, gate releases, renewal firings (current and stale), trust-bundle updates and root changes; per observation: key/cert pair match, roots contained, exactly one CSRSign per attempt and none overlapping, exactly one renewal per certificate with delay bounded by expiry and grace, failure not sticky, root change announced exactly once; rotateTime swept over ratio x jitter grids.',
  note='Trusted: the fake CA and virtual queue (harness code), the reference model, one-sided time bounds computed from timestamps taken before the call. Not driven: sdsservice push delivery, citadel client retries, real delay queue timing. Three defects found by this check were fixed (see known-findings.txt).',
)

CLAIMED['C19'] = dict(
  category='exploration',
  technique='runtime monitoring: the real injection webhook (inject.NewWebhook behind its HTTP mux, config and templates rendered from the in-repo charts) is driven with AdmissionReview requests; exhaustive 1200-row decision table against an independent reference table function (each row three times: determinism, non-interference), plus inject-twice differential and pod-preservation diff over repo fixtures and PRNG pods',
  text='Decision clause: exhaustive over hostNetwork x namespace x label x annotation x never/always selectors x policy (1200 rows, x8 installation variants in thorough), every row equal to the reference precedence table and stable under re-submission and unrelated metadata. Idempotency/preservation: hundreds (quick) to thousands (thorough) of pods under the shipped templates that render for pods (sidecar, gateway, grpc-agent, grpc-simple); user containers, init containers and volumes keep order, image, command, args, ports. Re-invocation is NOT idempotent for five trigger families listed as known findings; any other difference between first and second injection is still a violation.',
  note='Trusted: the reference decision table (our reading of the documented precedence; an illegal policy value disables injection as documented by the injector), JSON-patch application, canonical JSON comparison. Repo TEST-only templates (custom, spire) are excluded; templates needing a ServiceAccount context (waypoint, kube-gateway, agentgateway) do not render for pods and are not covered. AdmissionReview v1 only; OpenShift and node auto-detection branches not driven.',
)

CLAIMED['C16'] = dict(
  category='exploration',
  technique='runtime monitoring: PRNG-built krt collection DAGs (public API only) run under concurrent PRNG input histories with the race detector; at logical quiescence (stop-the-world goroutine-state fixpoint) List/GetKey/Index.Lookup/filtered Fetch are compared with an independent recomputation over plain maps, and every subscriber event stream is run through a per-key automaton and replayed against the final contents',
  text='Held (up to listed known findings, each confined to a stratum of programs using the named feature) on every program x history executed: hundreds (quick) to thousands (thorough) of DAGs over one-to-one, one-to-many (fixed and moving keys), singleton, join (checked/unchecked), merge join, nested join with merge, map, index and index-as-collection shapes, with late subscribers and late-built nodes; millions of stream events checked in thorough. A state mismatch must persist over two further barrier rounds before it is reported.',
  note='Trusted: the reference recomputation generated from the same descriptor as the krt transformation (shares no krt code), the quiescence detector (all other goroutines parked and none in a krt sync wait), coalesced updates accepted as the EventStream contract allows. Not driven: informer-backed inputs, status collections, Index.AsCollection event streams. Programs containing a known-bad feature (nil labels with FilterSelects, overlapping join keys, moving many-keys, racing nested-join membership) report under their stratum key, which can hide a different defect confined to the same nodes. A krt goroutine nil dereference on concurrent nested-join member removal (repro: krtmon repro crash) is kept out of the generator and described in DESIGN.md.',
)

CLAIMED['C08'] = dict(
  category='exploration',
  technique='runtime monitoring / differential translation validation: PRNG and enumerated AuthorizationPolicy sets (each passed through the real validator) are translated by the real authz builder; an Envoy RBAC interpreter over the emitted filters and an independent policy-semantics evaluator over the API objects decide generated requests (literals and near misses, HTTP and raw TCP); decisions must agree, one-sided only where the property allows stricter',
  text='Held (up to two listed root causes) on every (policy set, workload, request) evaluated: thousands of policy sets and a 4172-case single-field sweep, millions of request decisions per run, 830 field x form x action x protocol combinations, sidecars and gateways, root-namespace and selector scoping, trust-domain aliases, JWT claims, path templates. Disagreements are shrunk and keyed by a named root-cause hypothesis or by direction+protocol+field:form.',
  note='Trusted: reference policy evaluator (our reading of the AuthorizationPolicy API docs; combinations the docs leave open are three-valued and not judged), the Envoy RBAC interpreter (36 matcher kinds; unknown kinds => inconclusive), Go regexp for safe_regex. Not generated: experimental filters, targetRef/waypoint attachment, IPv4-mapped IPv6, query strings, multi-wildcard values.',
)

CLAIMED['C12'] = dict(
  category='exploration',
  technique='runtime monitoring / differential translation validation: PRNG worlds of services, subsets, Gateways and validated VirtualServices are translated by the real route generator for sidecar and gateway proxies; an Envoy RouteConfiguration interpreter over the emitted routes and an independent VirtualService evaluator over the API objects decide witness requests (literals and near misses) on the route configuration the listener port actually references; outcomes must agree',
  text='Held (up to two listed deviations) on every (world, proxy, request) asserted: thousands of worlds, hundreds of thousands of requests in thorough; 174 match-field x form x action x proxy-type combinations; rule order and later-rule decisions exercised (about half of rule-decided requests are decided by a later rule); gateway merging across VirtualServices and the sidecar no-merge rule checked existentially; situations the API reference leaves open are counted and not asserted. Disagreements are minimised and keyed by a named deviation hypothesis or structurally.',
  note='Trusted: the VirtualService evaluator (our reading of the networking API reference), the Envoy route interpreter (38 constructs; unknown => inconclusive), Go regexp as RE2. Not generated: delegates, TLS gateway servers, exportTo/Sidecar scoping, destinations outside the registry, multi-port destinations without port, redirect port rewriting subtleties.',
)

CLAIMED['C02'] = dict(
  category='exploration',
  technique='runtime monitoring with unique tags: merge algebra on real Merge/CopyMerge; real debounce loop through hook H1; real PushQueue under concurrent producers/workers with recorded history checked by porcupine per connection plus conservation and shared-request immutability; whole FakeDiscoveryServer with stream-shim clients, tagged ConfigUpdates from several goroutines and PRNG stream faults, exactly-what-was-handed recording at the public ProxyNeedsPush hook point; race detector',
  text='Held on every execution produced: tens of thousands of algebra cases, hundreds (quick) / thousands (thorough) of debounce runs, queue histories and server runs with send errors, cancels, EOFs, blocked sends and late joiners; at logical quiescence every live client had been handed every tag accepted after it registered, forced-ness preserved, snapshots non-decreasing and final == global, no dead connection left in the queue or the client list. Seven seeded mutants (forced dropped, parked request overwritten, MarkDone not re-queueing, doneFunc skipped on closed stream, debounce dropping earlier events, Merge instead of CopyMerge, stale snapshot kept) are caught.',
  note='Trusted: tag accounting through ReasonStats counts, the ProxyNeedsPush observation point, porcupine, the bounded-progress restatement of "eventually" (violation only with logical evidence of a stuck entry, otherwise inconclusive). Duplicated deliveries are counted, not judged. PILOT_PUSH_THROTTLE=3 in children so that a leaked push slot shows.',
)

_XC_NOTE = 'Trusted: the Envoy client models (internal/envoyclient), the process-wide logical quiescence detector (internal/idle) together with accepted==committed and empty push queue, proto.Equal comparison with EDS endpoints/localities as sets, the triage that excludes resources a server regenerates differently without any change. Histories go through the config store only (12 Istio kinds, every object passes the real validator); k8s Service/EndpointSlice/Pod ingestion, ztunnel/waypoint clients, ECDS/NDS/SDS and multi-cluster are not driven. One timing-dependent known finding (service key dropped by the per-proxy dependency filter) is keyed by root cause.'

CLAIMED['C01'] = dict(
  category='exploration',
  technique='runtime monitoring / differential oracle: long-lived SotW and delta Envoy client models follow PRNG histories applied through the real config store to a FakeDiscoveryServer (real debouncer, push queue, per-proxy filtering, per-type skip tables); at logical quiescence their state is compared with fresh clients of a second control plane built from the final state; mismatches are triaged by forced pushes and a second fresh server; push requests are logged before/after the per-proxy dependency filter for root-cause keys',
  text='Held (up to the listed known finding) at every checkpoint of every history executed: dozens (quick) to hundreds (thorough) of histories of 12-60 ops in PRNG batches, 8 long-lived clients (3 sidecars, 1 router; SotW and delta), thousands of resources compared; every checkpoint had generator calls that skipped or narrowed a push. Two delta-CDS defects found here were fixed.',
  note=_XC_NOTE,
)
CLAIMED['C03'] = dict(
  category='exploration',
  technique='runtime monitoring / differential oracle: for each proxy a delta client and a SotW client with identical node metadata follow the same PRNG history on one real server; after every batch, at logical quiescence, their held CDS/EDS/LDS/RDS sets are compared; the delta client checks every response for protocol sanity',
  text='Held (up to the listed known finding) after every batch of every history executed; histories with delta removals and subscription changes are counted as non-trivial. Two genuine delta-CDS defects (subset clusters not removed; one cluster per removed port kept) were found and fixed.',
  note=_XC_NOTE,
)
CLAIMED['C05'] = dict(
  category='fault_enumeration',
  technique='runtime monitoring with enumerated stream faults: per history, cut points (after the n-th response of the initial sync n=1..8 with/without ACK, send failure on the n-th send n=1..6, every batch boundary; cancel and EOF) x {same server, restarted server built from current state} x {SotW, delta} x {retained nonce presented or not}; changes are applied while the client is away; after reconnect with retained versions/names the fresh-control-plane oracle of C01 decides',
  text='Held on every scenario executed: ~30 + (number of batches) scenarios per history, hundreds (quick) to thousands (thorough) of scenarios of which about half missed changes while disconnected; control-plane restarts in half of the histories with all clients reconnecting with retained state; re-opened types answered is implied by equality with the fresh state for every referenced name.',
  note=_XC_NOTE,
)

CLAIMED['C10'] = dict(
  category='exploration',
  technique='runtime monitoring / differential oracle: PRNG and exhaustive PeerAuthentication sets (mesh, namespace, workload, port level; all modes; tie stratum) are rendered into one FakeDiscoveryServer with ambient enabled; a 20-line reference precedence function is compared with three independent observations of the real output per (workload, port, protocol): the virtualInbound listener interpreted by an own filter-chain matcher, the EDS tlsMode marker plus the CDS transport-socket match, and the ambient security.Authorization policies interpreted for an unauthenticated and an authenticated peer',
  text='Sidecar inbound and EDS legs held on every (workload, port) triple of every policy set executed (hundreds of sets quick, ~20k thorough; all five deciding levels and hundreds of precedence paths exercised; exhaustive stratum over modes per level). The ambient leg and the CDS best-effort inference disagree with the reference in the listed known-finding families (three named strata, empty-selector namespaces, equal-age ties, namespace-wide DISABLE); any ambient disagreement outside those strata keeps its full precedence path in the key and is reported.',
  note='Trusted: the reference precedence function (oldest wins, name as documented tie-break), the filter-chain matcher, the workloadapi Authorization interpreter, the assumption that ztunnel ignores a referenced policy that was never sent. Worlds are static (no policy update after start). Not generated: gateways/waypoints, DestinationRule TLS, WorkloadEntry workloads, root-namespace policies with selectors.',
)

CLAIMED['C11'] = dict(
  category='exploration',
  technique='runtime monitoring: the real DiscoveryServer (identity check on, harness authenticator, SubjectAccessReview reactor, real kube secrets with real key pairs, Istio Gateways and Gateway-API certificateRefs with ReferenceGrants) is driven over the in-process stream shim by differently privileged SotW and delta clients requesting overlapping SDS names in PRNG orders against the shared cache; every response of every type is scanned for needles of every private key; a reference entitlement function and a reference identity-binding rule decide; the same plan in two orders must give the same per-proxy answers',
  text='Held on every stream and every response observed: hundreds (quick) / thousands (thorough) of orderings, thousands of streams across 111 credential/claim classes, all six legitimate release grounds exercised (so the positive path is real), tens of thousands of secrets with key material inspected, thousands of responses for names cached by another stream. 11 seeded mutants in sds.go, auth.go, credentials/kube and model/gateway.go are caught.',
  note='Trusted: the reference entitlement function (our reading of the property; CA-only secrets not asserted), needle-based key detection (key material without a known needle => inconclusive), the harness authenticator and SAR table. Not explored: multi-cluster credentials, ListenerSets, caCertCredentialName, ECDS pull secrets, requests racing with pushes.',
)
