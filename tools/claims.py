# Table of claimed properties; exec'd by mkmanifest.py.
NOT_CLAIMED = {}

CLAIMED['C13'] = dict(
  category='exploration',
  technique='runtime monitoring: recorded concurrent histories of the real EndpointIndex checked for linearizability with porcupine (gate-enumerated windows via hook H2 + free-running stress under -race), plus differential oracle of real EDS generator output vs reference membership function',
  text='Held on every execution produced: all ordered (parked update x concurrent registry op x initial population) pairs at the lookup/lock window, thousands of PRNG multi-registry histories under the race detector, and thousands of PRNG shard/subset/health/locality/visibility worlds where generator (cold and cached) and builder output equal the reference member set and locality weights. Exploration, not proof: schedules outside those produced and inputs outside the grammar are not covered.',
  note='Trusted: porcupine v1.3.0; the sequential spec map[service]map[registry]->update id; unique ids in endpoints; the reference membership function (our reading of the property incl. documented DestinationRule distribute semantics); model.Service objects from the in-memory registry stand in for real registries. Multi-network gateways, waypoints and InferencePool semantics are not driven.',
)
