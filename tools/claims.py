# Table of claimed properties; exec'd by mkmanifest.py.
NOT_CLAIMED = {}
