#!/bin/bash
# usage: tools/mutant.sh <name> <patch.diff> <Cxx> <quick|thorough> [seed]
# Applies a patch to a scratch copy of /repo (outside /repo and /verif), builds the engine for
# the property against that copy and runs the check with output under the scratch dir.
# The scratch dir is removed afterwards unless KEEP=1.
set -u
export GOFLAGS=-mod=mod GOPROXY=off
name="$1"; patch="$2"; prop="$3"; tier="${4:-quick}"; seed="${5:-1}"
S=/tmp/mut-$name
rm -rf "$S"; mkdir -p "$S/out"
rsync -a --exclude .git /repo/ "$S/repo/"
if [ "$patch" != "-" ]; then (cd "$S/repo" && patch -p1 --no-backup-if-mismatch < "$patch") || { echo "patch failed"; exit 2; }; fi
engine=$(grep -E "^ +[C0-9|]*$prop[C0-9|]*\) engine=" /verif/check | sed -E 's/.*engine=([a-z]+).*/\1/' | head -1)
sed "s#=> /repo#=> $S/repo#" /verif/harness/go.mod > "$S/go.mod"; cp /verif/harness/go.sum "$S/go.sum"
cd /verif/harness
TP=-trimpath; [ "$engine" = injectmon ] && TP=   # the chart renderer locates files through source paths
go build $TP -modfile="$S/go.mod" -race -tags verif -o "$S/$engine" "./cmd/$engine" || { echo BUILD-FAILED; [ "${KEEP:-0}" = 1 ] || rm -rf "$S"; exit 2; }
VERIF_OUT="$S/out" VERIF_SEED="$seed" "$S/$engine" -prop "$prop" -tier "$tier" | tee "$S/out/stdout.txt" | grep -E "VIOLATION|^  key=|KNOWN-FINDING|HARNESS-ERROR|BROKEN-CHECK|evaluations=" | cut -c1-260 | head -24
rc=${PIPESTATUS[0]}
echo "mutant $name: exit=$rc"
[ "${KEEP:-0}" = 1 ] || rm -rf "$S"
exit $rc
