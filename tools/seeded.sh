#!/bin/bash
# usage: tools/seeded.sh <Cxx> [n]    (expects /tmp/seed-<Cxx> worktree and /tmp/seed-<Cxx>-out/ from a seeding agent)
# 1. confirms the demonstration fails with the change and passes without it (in the agent's worktree),
# 2. runs our check against a scratch copy of /repo with the patch applied (tools/mutant.sh),
# 3. stores everything under /verif/seeded/<Cxx>-<n>/ and removes the worktree.
set -u
export GOFLAGS=-mod=mod GOPROXY=off
P="$1"; N="${2:-1}"; W=/tmp/seed-$P; O=/tmp/seed-$P-out; D=/verif/seeded/$P-$N
[ -f "$O/patch.diff" ] && [ -f "$O/meta.json" ] || { echo "missing outputs in $O"; exit 2; }
mkdir -p "$D"
cp -r "$O"/* "$D"/ 2>/dev/null
demo=$(python3 -c "import json;print(json.load(open('$O/meta.json'))['demo_cmd'])" | sed -E 's/export GOFLAGS=[^;]*; *//; s/ +\(.*$//; s/^cd [^;&]*(;|&&) *//')
echo "demo: $demo"
cd "$W" || exit 2
( eval "$demo" ) > "$D/demo_with_change.log" 2>&1; rc_with=$?
# (no git stash: refs/stash is shared between all worktrees of the repository)
git apply -R "$O/patch.diff" || { echo "cannot revert patch"; exit 2; }
( eval "$demo" ) > "$D/demo_without_change.log" 2>&1; rc_without=$?
git apply "$O/patch.diff"
echo "demo with change rc=$rc_with ; without change rc=$rc_without"
cd /verif
if [ "${SKIPCHECK:-0}" = 1 ] && [ -f "$D/check_quick.log" ]; then rc_check=$(grep -oE "exit=[0-9]+" "$D/check_quick.log" | tail -1 | cut -d= -f2); else tools/mutant.sh seed-$P-$N "$O/patch.diff" "$P" quick > "$D/check_quick.log" 2>&1; rc_check=$?; fi
grep -E "  key=|exit=|seed=" "$D/check_quick.log" | sed -E 's/ case=.*//' | sort | uniq -c | head -12
python3 - "$D" "$rc_with" "$rc_without" "$rc_check" <<'PY'
import json,sys,re
d,rw,rwo,rc=sys.argv[1],int(sys.argv[2]),int(sys.argv[3]),int(sys.argv[4])
m=json.load(open(d+'/meta.json'))
log=open(d+'/check_quick.log').read()
keys=sorted(set(re.findall(r'^\s+key=(\S+)',log,re.M)))
m['confirmed_by_us']={'demo_with_change_exit':rw,'demo_without_change_exit':rwo,'demo_discriminates': rw!=0 and rwo==0}
m['our_check']={'cmd':'tools/mutant.sh (scratch copy of /repo with patch.diff applied) -> ./check %s quick'%m['property'],'exit':rc,'detected': rc==1,'violation_keys':keys[:12]}
json.dump(m,open(d+'/meta.json','w'),indent=1)
print('detected' if rc==1 else 'MISSED', keys[:5])
PY
